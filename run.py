import sys
from dst.main import main
sys.exit(main())
