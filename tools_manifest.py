"""Regenerates MANIFEST.json from one table (kept valid at all times)."""
import json

BUILT = {
 'C01': dict(
  text=("Seeded search over short histories of real solver calls (fresh and "
        "caller-supplied fields, return_info on/off, all cycle x sslsolver x "
        "semicoarsening x line-relaxation x smoothing x clevel x tol x maxit "
        "combinations sampled) under a scripted environment: a contract-"
        "abiding adversary around the real SciPy Krylov solver (suppressed "
        "callbacks, abort with legal non-zero / break-down codes), numeric "
        "break-down injected after a scheduled smoothing call (NaN/Inf; "
        "finite blow-up only for stand-alone multigrid) and clock jumps. "
        "Every verdict is checked against an independently assembled "
        "finite-integration operator."),
  note=("Trusted: discretize's edge curl and inner products (the oracle "
        "operator); slack 0.5 on tol*||s|| for recurrence-vs-true residual "
        "drift of the SciPy solvers; finite numeric faults are not injected "
        "under a Krylov solver (a false success there would be the fault's "
        "doing)."),
  design='DESIGN.md §4 C01',
  technique='deterministic simulation: scripted solver environment (Krylov adversary, numeric fault injection) with an independent-operator oracle'),
 'C05': dict(
  text=("Control-plane simulation: the real multigrid recursion, parameter "
        "object, smoothing dispatch, per-level direction adaptation, "
        "restriction, prolongation and termination logic run against a "
        "simulated data plane (recording no-op Gauss-Seidel kernels, "
        "scripted fine-grid residual histories: decay, plateau, growth, NaN, "
        "never converging; a stub Krylov driver calling the pre-conditioner "
        "k times). The recorded visit history must equal, event by event, "
        "that of a small executable reference model written from the "
        "documentation. A second stratum runs everything for real on small "
        "shapes against the same model. Seeded sampling of shapes 2..40 "
        "(one direction up to 1024) and settings, not enumeration."),
  note=("Trusted: the reference model's reading of the docstring (V/W/F "
        "pictures, halving rule, pattern digits, 'compares with the last "
        "value of the same cycle type' for stagnation). Sequential "
        "state-machine simulation, not thread scheduling."),
  design='DESIGN.md §4 C05',
  technique='deterministic simulation of the solver control plane against a scripted data plane; refinement check against an executable reference model'),
 'C11': dict(
  text=("Seeded search over simulated executions of the real Simulation/"
        "process_map/io code on a simulated process pool (both back ends), "
        "with seeded completion orders, worker counts 1..16, memory and "
        "file-based hand-over and injected faults (worker crashes, task "
        "exceptions, ENOSPC/EIO at dataset granularity, stale files, clock "
        "jumps); oracles: slot attribution against direct solver calls and "
        "an independent FIT operator, and bit-identity with a sequential "
        "in-memory reference. Sampling, not enumeration."),
  note=("Trusted: the simulated executor's fidelity to "
        "ProcessPoolExecutor (it inherits the real Executor.map; tasks are "
        "atomic), discretize's operators, the pickle boundary as a model of "
        "process isolation."),
  design='DESIGN.md §4 C11',
  technique='deterministic simulation: seeded simulated process pool + fault injection, differential and attribution oracles'),

 'C13': dict(
  text=("Seeded search over histories (<=10 operations) on live Survey "
        "objects - explicit assignments, add_noise in all variants, select, "
        "copy, dict and file round trips with injected write faults, restart "
        "from file, misfit through a tiny real Simulation, permutation - "
        "checked after every step against a reference model that changes "
        "only on explicit assignment, with the documented formulas "
        "recomputed by the checker. RNG, clock and file I/O behind seams."),
  note=("Trusted: the reference model's reading of the documented formulas; "
        "the noise-form oracle does not know the random draws (it checks the "
        "algebraic form), so a wrong distribution with the right form is not "
        "seen."),
  design='DESIGN.md §4 C13',
  technique='deterministic simulation: seeded operation/fault histories against an executable reference model'),

 'C12': dict(
  text=("Seeded search over histories (<=8, thorough <=12 operations) on a "
        "set of live Simulation objects (original, copies, dict/file "
        "reloads, restarts from the last saved file), in memory and "
        "file-based, on the simulated pool, with injected save faults and "
        "task failures; every observed outcome is compared with the same "
        "operation on a freshly constructed simulation, and objects that "
        "were not operated on must be unchanged."),
  note=("Trusted: a freshly constructed Simulation running the canonical "
        "flow (compute, misfit, gradient) is the reference; differences "
        "below 1e3*tol relative are counted as probes, not violations. One "
        "known finding (copies share file_dir) is listed in "
        "known_findings.json."),
  design='DESIGN.md §4 C12',
  technique='deterministic simulation: seeded operation/fault histories incl. restart-from-durable-state, differential oracle against fresh objects'),

 'C17': dict(
  text=("Seeded search over histories of store operations (save, "
        "overwrite, convert along all format pairs, to_file/from_file, load) "
        "on a scratch directory with injected ENOSPC/EIO faults (before a "
        "write, after k datasets, at close, on read) and a virtual clock for "
        "_date; objects of every registered class and nested dictionaries "
        "are composed by a seeded generator. After every operation every "
        "path whose last write succeeded is loaded and compared structurally "
        "(kinds, dtypes, shapes, bytes; emg3d objects field by field) with a "
        "reference map. The single save/load stratum is plain seeded "
        "generation and is reported as such."),
  note=("Trusted: the checker's structural equality; h5py/numpy/json run "
        "for real, faults are injected at dataset/file granularity (no "
        "byte-level torn HDF5 writes). One known finding (npz drops empty "
        "dictionaries) is listed in known_findings.json."),
  design='DESIGN.md §4 C17',
  technique='deterministic simulation of a file store: seeded operation/fault histories against a reference map'),

 'C18': dict(
  text=("Seeded search over CLI sessions: 1-4 in-process invocations of the "
        "real emg3d.cli entry point over one directory (survey/model files "
        "in the three formats, config files with drawn subsets of the "
        "documented keys - half of the runs exactly one optional key, "
        "cycling through every key of every section - overlapping "
        "command-line arguments, forward/misfit/gradient, dry or real, "
        "save/load/cache/--clean, unknown keys and flags, missing files) on "
        "the simulated pool with virtual clock and seeded RNG. For every "
        "invocation the checker performs the documented API equivalent and "
        "compares data, misfit, n_observations, gradient byte-wise, the "
        "saved simulation structurally and the log file."),
  note=("Trusted: the checker's reading of docs/manual/cli.rst (each key is "
        "the same-named API argument); clock-dependent solver-info entries "
        "and the lazily filled grid cache are excluded from the comparison "
        "of saved simulations."),
  design='DESIGN.md §4 C18',
  technique='deterministic simulation of CLI sessions (shared directory, simulated pool, virtual clock, seeded RNG) with a differential oracle against the Python API'),
}

NA = {
 'C02': "pure linear-algebra identity of one kernel: no schedule, clock, fault or history to simulate",
 'C03': "algebraic consistency of the smoothers: pure functions of (field, source, model)",
 'C04': "restriction = prolongation^T and volume conservation: linear maps fixed by the grid; pure",
 'C06': "convergence rate of a deterministic algorithm on deterministic inputs: simulation decides nothing about rates",
 'C07': "calculus identity (gradient = misfit derivative) over inputs; its scheduled part is decided under C11, its cache behaviour under C12",
 'C08': "inner-product identities over inputs; the execution-mode part of its quantifier is C11's bit-identity",
 'C09': "pure linear functionals and a solver-tolerance identity",
 'C10': "pure geometry of source discretisation and coordinate conversions",
 'C14': "pure scalar mappings and constructor validation",
 'C15': "pure interpolation identities",
 'C16': "deterministic search procedure whose output depends only on its parameters",
 'C19': "numerical agreement of two deterministic codes; its pool use is inside C11's workload",
 'C20': "pure array bookkeeping of the Fourier helper",
}
PLANNED = ['C01', 'C05', 'C12', 'C13', 'C17', 'C18']

checks = []
for pid, d in sorted(BUILT.items()):
    checks.append({
        'property_id': pid,
        'quick_cmd': f'./check {pid} --tier quick',
        'thorough_cmd': f'./check {pid} --tier thorough',
        'evidence_file': f'evidence/{pid}.json',
        'replay_cmd_template': f'./check {pid} --replay {{path}}',
        'engine': 'dst',
        'level_claimed': {'category': 'exploration', 'text': d['text'],
                          'design_ref': d['design']},
        'level_note': d['note'],
        'technique': d['technique'],
    })
na = [{'property_id': k, 'reason': v} for k, v in sorted(NA.items())]
for p in PLANNED:
    if p not in BUILT:
        na.append({'property_id': p, 'reason':
                   'simulation target (see DESIGN.md §4) whose check is not '
                   'built yet in this commit; not claimed until it is'})
na.sort(key=lambda e: e['property_id'])
doc = {
 'version': 1,
 'setup_cmd': './setup.sh',
 'hooks': {'guard': 'EMG3D_VERIF', 'enable': 'no source hooks: all seams are module-level names patched from /verif at run time (./check exports EMG3D_VERIF=1 for completeness)',
           'baseline_off_cmd': 'cd /repo && /venv/bin/python -m pytest -ra -q -p no:cacheprovider --timeout=900 --continue-on-collection-errors',
           'source_commits': [], 'add_only': True},
 'engines': [{'name': 'dst', 'path': 'dst/', 'serves_properties': sorted(BUILT),
              'kind_free_text': 'own deterministic simulator: key-addressed choice tape, virtual clock, simulated process pool, fault layer in front of h5py/numpy/json, ddmin shrinker, replay files'}],
 'checks': checks,
 'not_applicable': na,
 'notes': ('See DESIGN.md. ./check <id> [--tier quick|thorough] [--replay file]; exit 0 held (KNOWN-FINDING lines possible), '
           '1 VIOLATION property=<id> replay=<path>, 2 harness error. One integer (VERIF_SEED) decides every run; runs execute in '
           'forked processes (hermetic); violations are minimised, replayed in a fresh interpreter and matched against '
           'known_findings.json. Evidence files are rewritten by every run. seeded/ holds 42 independently written changes '
           'with the check results (all caught); ./check selftest is the determinism self-test; run_all.sh runs every check.'),
}
json.dump(doc, open('MANIFEST.json', 'w'), indent=1)
print('claimed', sorted(BUILT), 'na', len(na))
