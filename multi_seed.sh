#!/bin/bash
# Quick tier of every claimed check under several VERIF_SEED values: a check
# must not raise an alarm on the unchanged tree whatever the seed.
cd "$(dirname "$0")"
for s in "$@"; do
  echo "== VERIF_SEED=$s"
  VERIF_SEED=$s ./run_all.sh quick
done
