"""Independent finite-integration operator (checker side).

A = C^T M_f(V / mu_r) C + s mu_0 M_e(V (sigma + s eps_0 eps_r))

assembled with *discretize* from the grid widths and the model's
conductivities only.  Nothing of `emg3d.core`/`emg3d.solver` is used, and
the operator is not re-validated against the kernel at check time.
"""
import numpy as np
import scipy.sparse as sps
from scipy.constants import mu_0, epsilon_0

import discretize

_MAPS = {
    'Conductivity': lambda x: x,
    'Resistivity': lambda x: 1.0 / x,
    'LgConductivity': lambda x: 10.0 ** x,
    'LgResistivity': lambda x: 10.0 ** (-x),
    'LnConductivity': lambda x: np.exp(x),
    'LnResistivity': lambda x: np.exp(-x),
}

_cache = {}


def _mesh(hx, hy, hz):
    key = (hx.tobytes(), hy.tobytes(), hz.tobytes())
    m = _cache.get(key)
    if m is None:
        if len(_cache) > 8:
            _cache.clear()
        mesh = discretize.TensorMesh([hx, hy, hz])
        m = (mesh, mesh.edge_curl.tocsr())
        _cache[key] = m
    return m


def conductivities(model):
    """(sx, sy, sz) as flat F-ordered cell arrays, from the model."""
    back = _MAPS[model.map.name]
    px = back(np.asarray(model.property_x, dtype=float))
    py = px if model.property_y is None else back(
        np.asarray(model.property_y, dtype=float))
    pz = px if model.property_z is None else back(
        np.asarray(model.property_z, dtype=float))
    return [np.asarray(p).ravel('F') for p in (px, py, pz)]


def interior_mask(shape_cells):
    """Boolean mask over edges: True for non-boundary (free) edges."""
    nx, ny, nz = shape_cells
    mx = np.zeros((nx, ny + 1, nz + 1), bool)
    mx[:, 1:-1, 1:-1] = True
    my = np.zeros((nx + 1, ny, nz + 1), bool)
    my[1:-1, :, 1:-1] = True
    mz = np.zeros((nx + 1, ny + 1, nz), bool)
    mz[1:-1, 1:-1, :] = True
    return np.r_[mx.ravel('F'), my.ravel('F'), mz.ravel('F')]


def operator(grid, model, sval):
    """Sparse system matrix for Laplace parameter `sval` (complex or real)."""
    hx, hy, hz = [np.asarray(h, dtype=float) for h in grid.h]
    mesh, C = _mesh(hx, hy, hz)
    nC = mesh.n_cells
    sx, sy, sz = conductivities(model)
    if model.epsilon_r is not None:
        ee = sval * epsilon_0 * np.asarray(model.epsilon_r).ravel('F')
        sx, sy, sz = sx + ee, sy + ee, sz + ee
    sig = np.r_[sx, sy, sz]
    if model.mu_r is None:
        mui = np.ones(nC)
    else:
        mui = 1.0 / np.asarray(model.mu_r, dtype=float).ravel('F')
    Me = mesh.get_edge_inner_product(sig)
    Mf = mesh.get_face_inner_product(mui)
    return (C.T @ Mf @ C + sval * mu_0 * Me).tocsr()


def residual_norm(grid, model, sfield_vec, efield_vec, sval):
    """|| s - A e || over the free (interior) edges, and ||s|| as emg3d
    defines the reference (norm of the complete source vector)."""
    A = operator(grid, model, sval)
    mask = interior_mask([len(h) for h in grid.h])
    r = sfield_vec - A @ efield_vec
    # rows of boundary edges carry no equation (PEC: e = 0 there)
    r = np.where(mask, r, sfield_vec)
    return float(np.linalg.norm(r)), float(np.linalg.norm(sfield_vec))


def boundary_max(shape_cells, efield_vec):
    mask = interior_mask(shape_cells)
    b = np.asarray(efield_vec)[~mask]
    return float(np.max(np.abs(b))) if b.size else 0.0
