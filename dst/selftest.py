"""Determinism self-test: `./check selftest`.

For every machine: N run indices, each executed twice in *different* worker
processes (two batches at two worker counts), and once more in a fresh
interpreter under another PYTHONHASHSEED; the trace digests must agree.
A two-run diff is not enough (it catches a 1-in-8 divergence one time in
five), hence many seeds per machine.
"""
import json
import os
import subprocess
import sys
import time

from dst import engine, runner

PIDS = ['C01', 'C05', 'C11', 'C12', 'C13', 'C17', 'C18']
N = {'C01': 400, 'C05': 400, 'C11': 200, 'C12': 200, 'C13': 400, 'C17': 300,
     'C18': 96}


def digests(machine, seed, n, nproc):
    res, errs, _ = runner.run_batch(machine, seed, 'quick', n, 3000, nproc,
                                    run_timeout=400, stop_on_violation=0,
                                    log=lambda *a: None)
    return {r['index']: (r['digest'], bool(r.get('violation')),
                         r.get('error')) for r in res}, errs


def main(seed, only=None):
    return runner.with_scratch(lambda: _main(seed, only))


def _main(seed, only=None):
    from dst.main import get_machine
    if os.environ.get('VERIF_SELFTEST_CHILD'):
        pid = os.environ['VERIF_SELFTEST_CHILD']
        m = get_machine(pid)
        m.warmup()
        n = int(os.environ['VERIF_SELFTEST_N'])
        d, errs = digests(m, seed, n, 16)
        print('SELFTEST-JSON ' + json.dumps({str(k): v[0] for k, v in
                                             d.items()}))
        return 0
    rc = 0
    scale = float(os.environ.get('VERIF_SELFTEST_SCALE', '1'))
    for pid in (only or PIDS):
        t0 = time.time()
        m = get_machine(pid)
        m.warmup()
        n = max(16, int(N[pid] * scale))
        a, ea = digests(m, seed, n, 16)
        b, eb = digests(m, seed, n, 3 if n <= 100 else 5)
        env = dict(os.environ, PYTHONHASHSEED='4242',
                   VERIF_SELFTEST_CHILD=pid, VERIF_SELFTEST_N=str(n))
        p = subprocess.run([sys.executable, os.path.join(runner.VERIF,
                                                         'run.py'),
                            'selftest'], env=env, capture_output=True,
                           text=True)
        c = {}
        for line in p.stdout.splitlines():
            if line.startswith('SELFTEST-JSON '):
                c = {int(k): v for k, v in
                     json.loads(line[len('SELFTEST-JSON '):]).items()}
        bad = [i for i in range(n) if i in a and (
            (i in b and a[i][0] != b[i][0]) or
            (i in c and a[i][0] != c[i]))]
        missing = [i for i in range(n) if i not in a or i not in b or
                   i not in c]
        errs = [i for i in a if a[i][2]]
        print(f"[selftest] {pid}: {n} seeds x 3 executions (16 procs, "
              f"{3 if n <= 100 else 5} procs, fresh interpreter with "
              f"PYTHONHASHSEED=4242): {len(bad)} digest mismatches, "
              f"{len(missing)} missing, {len(errs)} harness errors, "
              f"{time.time() - t0:.0f}s")
        if bad or missing or errs or ea or eb:
            rc = 2
            print(f"  mismatching run indices: {bad[:10]} missing "
                  f"{missing[:10]} errors {errs[:5]} {ea[:2]} {eb[:2]}")
    return rc
