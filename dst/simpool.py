"""Simulated process pool.

`SimExecutor` stands in for `concurrent.futures.ProcessPoolExecutor` (both
for `emg3d._multiprocessing` and for tqdm's `process_map`, which imports the
name from `concurrent.futures` at call time).  It implements `submit` and
`shutdown` only and *inherits the standard library's `Executor.map`*, so the
order-preserving logic under test is the real one.

N simulated workers, FIFO call queue, virtual task durations drawn from the
run's schedule policy; a heap of (finish time, tie-break, seq) gives a total
order of completion events.  The task function runs, for real, at its
completion event ("tasks are atomic"), inside a simulated worker context:
arguments and results cross a pickle boundary like in a real process pool.
"""
import contextlib
import heapq
import pickle
import concurrent.futures as cf
from concurrent.futures.process import BrokenProcessPool

from dst.engine import HarnessError

POLICIES = ['uniform', 'reverse', 'straggler', 'ties', 'fifo', 'perm']

# The real classes, captured before any seam is installed.
RealProcessPoolExecutor = cf.ProcessPoolExecutor
_real_as_completed = cf.as_completed
_real_wait = cf.wait


class WorkerDied(BaseException):
    """Raised inside a simulated worker to model the death of its process."""


class InjectedTaskError(RuntimeError):
    """The exception an injected `task_exception` fault raises in a task."""


class SimFuture(cf.Future):
    def __init__(self, ex, tid):
        super().__init__()
        self._sim_ex = ex
        self.tid = tid

    def result(self, timeout=None):
        self._sim_ex._drive(self)
        return super().result(0)

    def exception(self, timeout=None):
        self._sim_ex._drive(self)
        return super().exception(0)


class PoolSim:
    """Per-run state shared by all executors the code under test creates."""

    def __init__(self, ctx, policy='uniform', late_pickle=False):
        self.ctx = ctx
        self.policy = policy
        self.late_pickle = late_pickle
        self.n_exec = 0          # executors created in the current op
        self.faults = []         # armed pool faults for the current op
        self.in_worker = None    # (pool index, task id) while a task runs
        self.orders = []         # completion orders observed (per executor)
        self.executors = []
        self.isolate = True      # pickle round trip at the process boundary

    def new_op(self, faults=()):
        self.n_exec = 0
        self.faults = [dict(f) for f in faults]
        self.orders = []

    def take_fault(self, kind, pool, tid):
        for f in self.faults:
            if (f['kind'] == kind and f.get('pool', 0) == pool
                    and f.get('task', 0) == tid and not f.get('fired')):
                f['fired'] = True
                return f
        return None

    def executor_class(self):
        sim = self

        class SimExecutor(cf.Executor):
            def __init__(self, max_workers=None, mp_context=None,
                         initializer=None, initargs=(), *,
                         max_tasks_per_child=None):
                if max_workers is None:
                    max_workers = 4
                if max_workers <= 0:
                    raise ValueError("max_workers must be greater than 0")
                self.sim = sim
                self.idx = sim.n_exec
                sim.n_exec += 1
                sim.executors.append(self)
                sim.ctx.stats.seam('executor_created')
                self.nw = max_workers
                self.initializer = initializer
                self.initargs = initargs
                self.inited = set()
                self.queue = []       # (tid, payload, fut)
                self.running = []     # heap of (finish, tiebreak, seq, ...)
                self.free = list(range(max_workers))
                self.ntasks = 0
                self.seq = 0
                self.broken = False
                self.closed = False
                self.order = []       # completion order (task ids)
                self.straggler = None
                self.perm = None

            # -- Executor API ---------------------------------------------
            def submit(self, fn, /, *args, **kwargs):
                if self.closed:
                    raise RuntimeError(
                        'cannot schedule new futures after shutdown')
                if self.broken:
                    raise BrokenProcessPool(
                        'A child process terminated abruptly, the process '
                        'pool is not usable anymore')
                tid = self.ntasks
                self.ntasks += 1
                sim.ctx.stats.seam('submit')
                fut = SimFuture(self, tid)
                item = (fn, args, kwargs)
                if sim.isolate and not sim.late_pickle:
                    item = pickle.dumps(item)
                self.queue.append((tid, item, fut))
                return fut

            def shutdown(self, wait=True, *, cancel_futures=False):
                if self.closed:
                    return
                if cancel_futures:
                    for _, _, fut in self.queue:
                        fut.cancel()
                # Work that is already on a worker runs to completion, as in
                # the real pool (results of cancelled futures are dropped).
                if wait and not self.broken:
                    self.queue = [q for q in self.queue
                                  if not q[2].cancelled()]
                    while self.running or (self.queue and self.free):
                        self._step()
                self.closed = True
                if self.order:
                    sim.orders.append((self.idx, self.nw, list(self.order)))

            # -- event loop -----------------------------------------------
            def _duration(self, tid, worker):
                ch, ctx = sim.ctx.ch, sim.ctx
                key = ctx.key('pool', self.idx, 'dur', tid)
                pol = sim.policy
                if pol == 'reverse':
                    base = 1.0 + 3.0 * max(0, 40 - tid)
                    return base + ch.uniform(key, 0, 1, 100)
                if pol == 'ties':
                    return 1.0
                if pol == 'fifo':
                    return 1.0 + 0.001 * tid
                if pol == 'perm' and self.perm is not None:
                    # a uniformly drawn completion order (all tasks run
                    # concurrently: as many workers as tasks)
                    return 1.0 + self.perm.index(tid)
                d = ch.uniform(key, 1.0, 10.0, 900)
                if pol == 'straggler':
                    if self.straggler is None:
                        self.straggler = ch.randint(
                            ctx.key('pool', self.idx, 'straggler'), self.nw)
                    if worker == self.straggler:
                        d *= 50.0
                return d

            def _dispatch(self):
                ctx = sim.ctx
                if sim.policy == 'perm' and self.perm is None and \
                        self.queue and len(self.queue) <= self.nw and \
                        not self.order:
                    rest = [q[0] for q in self.queue]
                    self.perm = []
                    while rest:       # Lehmer code, one draw per position
                        j = ctx.ch.randint(ctx.key(
                            'pool', self.idx, 'perm', len(rest)), len(rest))
                        self.perm.append(rest.pop(j))
                while self.queue and self.free:
                    tid, item, fut = self.queue.pop(0)
                    if not fut.set_running_or_notify_cancel():
                        continue       # was cancelled while queued
                    w = self.free.pop(0)
                    if w not in self.inited:
                        self.inited.add(w)
                        if self.initializer is not None:
                            self.initializer(*self.initargs)
                    if sim.isolate and sim.late_pickle:
                        item = pickle.dumps(item)
                    dur = self._duration(tid, w)
                    tb = 0
                    if sim.policy == 'ties':
                        tb = ctx.ch.randint(
                            ctx.key('pool', self.idx, 'tie', tid), 1000)
                    self.seq += 1
                    heapq.heappush(
                        self.running,
                        (round(ctx.clock.now + dur, 6), tb, self.seq,
                         tid, w, item, fut))

            def _break(self, fut):
                """A worker died: this and every unfinished future breaks."""
                self.broken = True
                exc = BrokenProcessPool(
                    'A process in the process pool was terminated abruptly '
                    'while the future was running or pending.')
                pending = [fut] + [r[6] for r in self.running] + \
                          [q[2] for q in self.queue]
                self.running, self.queue = [], []
                for f in pending:
                    if not f.done():
                        if f._state == 'PENDING':
                            f.set_running_or_notify_cancel()
                        if not f.cancelled():
                            f.set_exception(exc)

            def _step(self):
                ctx = sim.ctx
                self._dispatch()
                if not self.running:
                    return False
                t, _, _, tid, w, item, fut = heapq.heappop(self.running)
                if t > ctx.clock.now:
                    ctx.clock.advance(t - ctx.clock.now)
                ctx.steps += 1
                self.order.append(tid)
                # -- faults at the pool level
                crash = sim.take_fault('worker_crash', self.idx, tid)
                if crash and crash.get('point') == 'before_run':
                    ctx.stats.fault('worker_crash/before_run')
                    self._break(fut)
                    return True
                if sim.take_fault('task_exception', self.idx, tid):
                    ctx.stats.fault('task_exception')
                    exc = InjectedTaskError(f'injected failure in task {tid}')
                    fut.set_exception(pickle.loads(pickle.dumps(exc)))
                    self.free.append(w)
                    self.free.sort()
                    return True
                # -- run the task in the simulated worker
                sim.in_worker = (self.idx, tid)
                died = False
                try:
                    fn, args, kwargs = (pickle.loads(item) if sim.isolate
                                        else item)
                    if crash and crash.get('point') in ('mid_save',
                                                        'torn_save',
                                                        'before_save'):
                        ctx.io.arm_worker_death(crash['point'],
                                                crash.get('k', 1))
                    try:
                        res = fn(*args, **kwargs)
                        if sim.isolate:
                            res = pickle.loads(pickle.dumps(res))
                        exc = None
                    except WorkerDied:
                        died = True
                    except Exception as e:      # noqa - task failure
                        try:
                            exc = pickle.loads(pickle.dumps(e))
                        except Exception:       # noqa
                            exc = RuntimeError(repr(e))
                        res = None
                finally:
                    sim.in_worker = None
                    if crash:
                        ctx.io.disarm_worker_death()
                if crash and not died and crash.get('point') in (
                        'after_run', 'mid_save', 'torn_save', 'before_save'):
                    # in-memory mode (no save to die in) or `after_run`:
                    # the result is lost with the process.
                    died = True
                if died:
                    ctx.stats.fault('worker_crash/' + crash.get('point'))
                    self._break(fut)
                    return True
                if exc is not None:
                    ctx.stats.probe('task_raised')
                    fut.set_exception(exc)
                else:
                    fut.set_result(res)
                self.free.append(w)
                self.free.sort()
                return True

            def _drive(self, fut):
                guard = 0
                while not fut.done():
                    if not self._step():
                        raise HarnessError(
                            'simulated pool deadlock: future neither queued '
                            'nor running')
                    guard += 1
                    if guard > 100000:
                        raise HarnessError('simulated pool step cap')

        return SimExecutor


def _sim_as_completed(fs, timeout=None):
    """`as_completed` for simulated futures (so changed code can be run)."""
    fs = list(fs)
    sims = [f for f in fs if isinstance(f, SimFuture)]
    if len(sims) != len(fs):
        yield from _real_as_completed(fs, timeout)
        return
    pending = set(fs)
    done_order = []
    for f in fs:
        f.add_done_callback(done_order.append)
    while pending:
        while done_order:
            f = done_order.pop(0)
            if f in pending:
                pending.discard(f)
                yield f
        if pending:
            ex = next(iter(pending))._sim_ex
            if not ex._step():
                # nothing left to run on this executor; try the others
                progressed = False
                for f in list(pending):
                    if f._sim_ex._step():
                        progressed = True
                        break
                if not progressed and not done_order:
                    raise HarnessError('as_completed: simulated deadlock')


def _sim_wait(fs, timeout=None, return_when=cf.ALL_COMPLETED):
    fs = list(fs)
    if not all(isinstance(f, SimFuture) for f in fs):
        return _real_wait(fs, timeout, return_when)
    for f in fs:
        if return_when == cf.ALL_COMPLETED or not any(
                g.done() for g in fs):
            f._sim_ex._drive(f)
        if return_when != cf.ALL_COMPLETED and any(g.done() for g in fs):
            break
    return _real_wait(fs, 0, return_when)


@contextlib.contextmanager
def installed(sim, backend='tqdm', bar=False):
    """Install the simulated pool behind both back ends.

    backend: 'tqdm' (tqdm.contrib.concurrent.process_map) or 'plain'
    (emg3d's own ProcessPoolExecutor branch, `_multiprocessing.tqdm = None`).
    """
    import concurrent.futures.process as cfp
    import emg3d._multiprocessing as mp
    cls = sim.executor_class()
    saved = (mp.ProcessPoolExecutor, mp.tqdm, cf.as_completed, cf.wait,
             cfp.ProcessPoolExecutor)
    mp.ProcessPoolExecutor = cls
    # `from concurrent.futures import ProcessPoolExecutor` at call time:
    cf.__dict__['ProcessPoolExecutor'] = cls
    cfp.ProcessPoolExecutor = cls
    cf.as_completed = _sim_as_completed
    cf.wait = _sim_wait
    # names imported with `from concurrent.futures import ...` by (changed)
    # emg3d modules are bound to the real functions: rebind them too
    import sys
    rebound = []
    for mname, mod in list(sys.modules.items()):
        if mname.startswith('emg3d') and mod is not None:
            for name, real, fake in (
                    ('as_completed', _real_as_completed, _sim_as_completed),
                    ('wait', _real_wait, _sim_wait),
                    ('ProcessPoolExecutor', RealProcessPoolExecutor, cls)):
                if mod.__dict__.get(name) is real and mod is not mp:
                    setattr(mod, name, fake)
                    rebound.append((mod, name, real))
                elif mod is mp and name != 'ProcessPoolExecutor' and \
                        mod.__dict__.get(name) is real:
                    setattr(mod, name, fake)
                    rebound.append((mod, name, real))
    if backend == 'plain':
        mp.tqdm = None
    else:
        import tqdm
        tqdm.tqdm.monitor_interval = 0
    try:
        yield cls
    finally:
        for mod, name, real in rebound:
            setattr(mod, name, real)
        mp.ProcessPoolExecutor, mp.tqdm = saved[0], saved[1]
        cf.as_completed, cf.wait = saved[2], saved[3]
        cf.__dict__['ProcessPoolExecutor'] = RealProcessPoolExecutor
        cfp.ProcessPoolExecutor = saved[4]
