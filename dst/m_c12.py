"""C12 — simulation results are a function of model and survey, not of call
history.

Histories (<= 8-12 operations) over a *set* of live Simulation objects (the
original plus copies / reloads / restarts from file), in memory and
file-based, on a simulated pool.  Oracle: the outcome of every operation
equals the outcome of the same operation on a freshly constructed simulation
with the current model, the survey as given and the same options; objects
that were not operated on are unchanged (independence).
"""
import copy
import os
import warnings

import numpy as np

from dst import gen, simpool, iofault, rngseam, clock as vclock
from dst.engine import Violation, ahash
from dst.machine import Machine, quiet

FMTS = ['h5', 'npz', 'json']
WHATS = ['computed', 'results', 'all', 'plain']


class Obj:
    """A live simulation together with what the checker knows about it."""

    def __init__(self, sim, version, nobj):
        self.sim = sim
        self.version = version      # model version it currently holds
        self.id = nobj


class C12(Machine):
    pid = 'C12'
    rule = ("one run = a generated problem (4-8 cells/direction, iso/VTI/HTI/"
            "triaxial, 1-3 sources x 1-2 frequencies x 1-3 receivers, NaN "
            "gaps, tol != tol_gradient, memory or file_dir, simulated pool) "
            "and a history of <=8 (thorough <=12) operations over the live "
            "objects; non-trivial = >=3 operations with at least one "
            "state-changing and one observing operation, or a restart; "
            "distinct = distinct trace digest")
    components_real = ['emg3d.simulations.Simulation', 'emg3d.surveys.Survey',
                       'emg3d.io', 'emg3d._multiprocessing',
                       'emg3d.solver + numba kernels', 'h5py', 'discretize '
                       '(jvec)']
    components_stub = ['ProcessPoolExecutor -> SimExecutor',
                       'wall clock -> VirtualClock',
                       'fault layer in front of h5py/numpy/json',
                       'numpy.random.default_rng() -> seeded']
    assumptions = ['"same operation on a fresh simulation" is the reference: '
                   'fresh = built by the constructor from the current model, '
                   'the survey as generated and the same options',
                   'bit-wise differences below 1e3*tol (relative) are '
                   'recorded as probes, not violations']
    required_seams = ['clock']

    def plan(self, tier):
        if tier == 'quick':
            return {'runs': 400, 'budget_s': 700, 'det_runs': 3,
                    'run_timeout': 240, 'shrink_s': 200}
        return {'runs': 10000, 'budget_s': 3000, 'det_runs': 5,
                'run_timeout': 400, 'shrink_s': 300}

    # ---------------------------------------------------------------- gen
    def gen(self, rng, tier, index):
        grid = gen.gen_grid(rng, 4, 8)
        layered = rng.random() < 0.12
        if layered:
            # layered (1D) mode: isotropic/VTI, points and dipoles only
            model = gen.gen_model(rng, cases=['isotropic', 'VTI'])
            survey = gen.gen_survey(rng, grid, nsrc=(1, 3), nrec=(1, 3),
                                    nfreq=(1, 2),
                                    src_kinds=('dipole', 'point'),
                                    rec_kinds=('e', 'm'))
        else:
            model = gen.gen_model(rng)
            survey = gen.gen_survey(rng, grid, nsrc=(1, 3), nrec=(1, 3),
                                    nfreq=(1, 2))
        sopts = {'sslsolver': rng.choice([False, 'bicgstab']),
                 'semicoarsening': True, 'linerelaxation': True,
                 'tol': rng.choice([1e-7, 1e-8]), 'maxit': 60, 'verb': 0}
        if rng.random() < 0.5:
            sopts['tol_gradient'] = rng.choice([1e-3, 1e-4, 1e-5])
        gridding, grid2 = 'same', None
        if rng.random() < 0.2 and not layered:
            gridding = 'input'
            grid2 = gen.gen_grid(rng, 4, 8)
            grid2['origin'] = grid['origin']
            for d in 'xyz':
                ext, s = sum(grid['h' + d]), sum(grid2['h' + d])
                grid2['h' + d] = [round(v * ext / s, 6)
                                  for v in grid2['h' + d]]
        config = {
            'grid': grid, 'model': model, 'survey': survey,
            'solver_opts': sopts, 'gridding': gridding, 'grid2': grid2,
            'recint': rng.choice(['linear', 'linear', 'cubic']),
            'max_workers': rng.choice([1, 1, 2, 3]),
            'backend': rng.choice(['tqdm', 'plain']),
            'file_dir': (not layered) and rng.random() < 0.25,
            'policy': rng.choice(simpool.POLICIES),
            'layered': layered,
            # explicit 1D extraction options: a radius derived from the
            # model at construction time would make "same options" ambiguous
            # after a model update (as with automatic gridding)
            'layered_opts': {'method': rng.choice(['cylinder', 'prism',
                                                   'midpoint', 'source',
                                                   'receiver']),
                             'ellipse': {'radius': rng.choice([150.0, 400.0]),
                                         'factor': 1.2, 'minor': 0.8}},
        }
        nops = rng.randint(3, 12 if tier == 'thorough' else 8)
        ops = [self._gen_op(rng, survey, config) for _ in range(nops)]
        if config['file_dir'] and rng.random() < 0.5:
            # half of the file-based runs keep to a single live object, so
            # that file-based histories are explored beyond the known
            # shared-file_dir finding (which needs a second live object)
            for op in ops:
                if op['op'] in ('copy', 'dict', 'file'):
                    op['op'] = 'restart'
                    op.setdefault('what', 'computed')
                    op.setdefault('fmt', rng.choice(FMTS))
        return {'config': config, 'ops': ops}

    def _gen_op(self, rng, survey, config):
        k = rng.choice([
            'partial', 'compute', 'misfit', 'misfit', 'gradient', 'gradient',
            'jvec',
            'jtvec', 'get_efield', 'get_hfield', 'clean', 'clean', 'copy',
            'copy', 'dict', 'file', 'restart', 'update', 'update'])
        op = {'op': k, 't': rng.randrange(8)}
        if k == 'partial':
            # results without (all) fields: keep the results only, then ask
            # for the field of a single source-frequency pair
            op['how'] = rng.choice(['keepresults', 'results_file'])
            op['fmt'] = rng.choice(FMTS)
            op['s'] = rng.randrange(len(survey['sources']))
            op['f'] = rng.randrange(len(survey['frequencies']))
        if k in ('get_efield', 'get_hfield'):
            op['s'] = rng.randrange(len(survey['sources']))
            op['f'] = rng.randrange(len(survey['frequencies']))
        elif k in ('jvec', 'jtvec'):
            op['vseed'] = rng.randint(0, 10**6)
        elif k == 'clean':
            op['what'] = rng.choice(['computed', 'computed', 'keepresults',
                                     'all'])
        elif k in ('copy', 'dict'):
            op['what'] = rng.choice(WHATS)
        elif k in ('file', 'restart'):
            op['what'] = rng.choice(WHATS)
            op['fmt'] = rng.choice(FMTS)
            if rng.random() < 0.3:
                op['iofaults'] = [{
                    'kind': rng.choice(['enospc', 'eio']), 'who': 'any',
                    'match': 'sim', 'nth': 0, 'k': rng.randint(1, 30),
                    'event': rng.choice(['open_w', 'dataset', 'dataset',
                                         'close_w'])}]
        elif k == 'update':
            op['mode'] = rng.choice(['inplace', 'replace'])
            op['clean'] = rng.choice(['computed', 'computed', 'all'])
        if k in ('compute', 'gradient', 'misfit', 'jvec', 'jtvec') and \
                config['max_workers'] > 1 and rng.random() < 0.12:
            op['faults'] = [{'kind': rng.choice(['task_exception',
                                                 'worker_crash']),
                             'pool': 0, 'task': rng.randrange(4),
                             'point': 'before_run'}]
            op['giveup'] = rng.choice(['clean', 'ignore', 'ignore', None,
                                       None])
        return op

    def simplify(self, case):
        c = case['config']
        out = []

        def var(**kw):
            n = copy.deepcopy(case)
            n['config'].update(kw)
            return n
        if c['file_dir']:
            out.append(var(file_dir=False))
        if c['max_workers'] > 1:
            out.append(var(max_workers=1))
        if c['gridding'] != 'same':
            out.append(var(gridding='same', grid2=None))
        if c['backend'] != 'plain':
            out.append(var(backend='plain'))
        if c['recint'] != 'linear':
            out.append(var(recint='linear'))
        s = c['survey']
        for key in ('sources', 'receivers', 'frequencies'):
            if len(s[key]) > 1:
                n = copy.deepcopy(case)
                del n['config']['survey'][key][-1]
                out.append(n)
        if 'tol_gradient' in c['solver_opts']:
            n = copy.deepcopy(case)
            del n['config']['solver_opts']['tol_gradient']
            out.append(n)
        if c['model']['case'] != 'isotropic':
            n = copy.deepcopy(case)
            n['config']['model']['case'] = 'isotropic'
            out.append(n)
        if c.get('layered'):
            out.append(var(layered=False))
        if s.get('nan_frac'):
            n = copy.deepcopy(case)
            n['config']['survey']['nan_frac'] = 0.0
            out.append(n)
        return out

    # ---------------------------------------------------------------- build
    def _model(self, cfg, version):
        grid = gen.build_grid(cfg['grid'])
        return gen.build_model(dict(cfg['model'], version=version), grid)

    def _build(self, cfg, version, file_dir, max_workers):
        import emg3d
        model = self._model(cfg, version)
        survey = gen.build_survey(cfg['survey'])
        kw = dict(gridding=cfg['gridding'],
                  solver_opts=dict(cfg['solver_opts']),
                  receiver_interpolation=cfg['recint'],
                  max_workers=max_workers,
                  tqdm_opts={'disable': True}, name='c12',
                  layered=cfg.get('layered', False))
        if cfg.get('layered'):
            lo = copy.deepcopy(cfg['layered_opts'])
            if lo['method'] not in ('cylinder', 'prism'):
                lo.pop('ellipse')
            kw['layered_opts'] = lo
        if cfg['gridding'] == 'input':
            kw['gridding_opts'] = gen.build_grid(cfg['grid2'])
        if file_dir:
            kw['file_dir'] = file_dir
        with warnings.catch_warnings():
            warnings.simplefilter('ignore')
            return emg3d.Simulation(survey, model, **kw)

    # ---------------------------------------------------------------- run
    def run(self, ctx, case):
        cfg = case['config']
        ctx.pool = simpool.PoolSim(ctx, cfg['policy'], False)
        ctx.io = iofault.IOSim(ctx, ctx.pool)
        ctx.fresh = {}
        ctx.nobj = 0
        ctx.kinds = []
        # forward quantities are solved to `tol`, adjoint-type quantities to
        # `tol_gradient`; on the unchanged tree they are bit-identical to a
        # fresh simulation (probe `differs_within_threshold` stays 0), the
        # thresholds only leave room for legitimate warm starts
        tolf = cfg['solver_opts']['tol']
        ctx.thr_f = 1e2 * tolf
        ctx.thr_g = 1e2 * cfg['solver_opts'].get('tol_gradient', tolf)
        ctx.thr = ctx.thr_f
        fdir = os.path.join(ctx.scratch, 'files') if cfg['file_dir'] \
            else None
        with vclock.installed(ctx.clock, ctx.stats), \
                rngseam.installed(ctx), quiet():
            sim = self._build(cfg, 0, fdir, cfg['max_workers'])
            live = [Obj(sim, 0, 0)]
            ctx.nobj = 1
            ctx.event('build', {'shape': list(sim.survey.shape)})
            for i, op in enumerate(case['ops']):
                ctx.opi = i
                self._step(ctx, cfg, live, op)
        k = ctx.kinds
        changing = {'compute', 'clean', 'update', 'jtvec', 'gradient',
                    'misfit', 'jvec'}
        observing = {'misfit', 'gradient', 'jvec', 'jtvec', 'get_efield',
                     'get_hfield', 'compute'}
        ctx.nontrivial = (len(k) >= 3 and bool(changing & set(k)) and
                          bool(observing & set(k))) or 'restart' in k
        for a, b in zip(k, k[1:]):
            ctx.stats.feature(a, b)

    # -- fresh reference ----------------------------------------------------
    def _fresh(self, ctx, cfg, version, what, arg=None):
        """Outcome of `what` on a freshly constructed simulation."""
        key = (version, what, arg)
        if key in ctx.fresh:
            return ctx.fresh[key]
        import emg3d._multiprocessing as mp
        base = ctx.fresh.get((version, '_sim'))
        saved = mp.tqdm
        mp.tqdm = None
        try:
            if what in ('synthetic', 'misfit', 'gradient', 'efields'):
                # canonical flow on one fresh object
                if base is None:
                    base = self._build(cfg, version, None, 1)
                    ctx.fresh[(version, '_sim')] = base
                    base.compute()
                    ctx.fresh[(version, 'synthetic', None)] = (
                        'ok', base.data.synthetic.data.copy())
                if what == 'misfit':
                    out = _outcome(lambda: np.array(float(base.misfit)))
                elif what == 'gradient':
                    self._fresh(ctx, cfg, version, 'misfit')
                    out = _outcome(lambda: np.array(base.gradient))
                elif what == 'efields':
                    out = ('ok', base)
                else:
                    out = ctx.fresh[(version, 'synthetic', None)]
            else:
                sim = self._build(cfg, version, None, 1)
                if what == 'jvec':
                    out = _outcome(lambda: np.array(
                        sim.jvec(_vec(sim, arg))))
                elif what == 'jtvec':
                    def f():
                        _ = sim.misfit
                        return np.array(sim.jtvec(_wvec(sim, arg)))
                    out = _outcome(f)
                else:
                    raise ValueError(what)
        finally:
            mp.tqdm = saved
        ctx.fresh[key] = out
        return out

    # -- snapshot for independence -----------------------------------------
    def _snapshot(self, sim):
        out = {'synthetic': ahash(sim.data.synthetic.data),
               'observed': ahash(sim.data.observed.data),
               'misfit': None if sim._misfit is None else
               ahash(np.asarray(sim._misfit)),
               'gradient': None if sim._gradient is None else
               ahash(sim._gradient),
               'model': ahash(sim.model.property_x),
               'computed': bool(sim._computed),
               'tol': repr(sim.tol_forward) + repr(sim.tol_gradient)}
        for k in ('residual', 'weights'):
            out[k] = ahash(sim.data[k].data) if k in sim.data else None
        for which in ('efield', 'bfield'):
            d = getattr(sim, f'_dict_{which}', None)
            if d is None:
                continue
            for s in d:
                for f in d[s]:
                    try:
                        v = sim._dict_get(which, s, f)
                        out[f'{which}/{s}/{f}'] = None if v is None else \
                            ahash(v.field)
                    except Exception as e:      # noqa
                        out[f'{which}/{s}/{f}'] = 'ERR:' + type(e).__name__
        return out

    # -- compare ------------------------------------------------------------
    def _cmp(self, ctx, got, want, cls, quantity, opk, what):
        """got/want are outcomes ('ok', array) or ('exc', name)."""
        if got[0] != want[0] or (got[0] == 'exc' and got[1] != want[1]):
            raise Violation(
                cls, f'{what}: outcome {_sh(got)} but a fresh simulation '
                f'gives {_sh(want)}', quantity=quantity, op=opk)
        if got[0] == 'exc':
            return
        a, b = np.asarray(got[1]), np.asarray(want[1])
        if a.shape != b.shape:
            raise Violation(cls, f'{what}: shape {a.shape} vs fresh '
                            f'{b.shape}', quantity=quantity, op=opk)
        if ahash(a) == ahash(b):
            return
        if np.array_equal(np.isnan(a), np.isnan(b)):
            m = ~np.isnan(b)
            den = np.linalg.norm(b[m]) if m.any() else 0.0
            dif = np.linalg.norm(a[m] - b[m]) if m.any() else 0.0
            thr = ctx.thr_g if quantity in ('gradient', 'jvec', 'jtvec') \
                else ctx.thr_f
            if dif <= thr * den:
                ctx.stats.probe('differs_within_threshold')
                return
            rel = dif / den if den else np.inf
        else:
            rel, thr = np.inf, 0
        raise Violation(
            cls, f'{what} differs from a fresh simulation with the same '
            f'model, survey and options: relative difference {rel:.3e} '
            f'(threshold {thr:.1e})', quantity=quantity, op=opk)

    def _check_state(self, ctx, cfg, obj, opk):
        """What the object reports without being asked to compute."""
        sim = obj.sim
        syn = sim.data.synthetic.data
        if not np.isnan(syn).all():
            want = self._fresh(ctx, cfg, obj.version, 'synthetic')[1]
            m = ~np.isnan(syn)
            den = np.linalg.norm(want[m & ~np.isnan(want)])
            if np.isnan(want[m]).any() or \
                    np.linalg.norm((syn - want)[m]) > ctx.thr_f * den:
                raise Violation(
                    'history_dependence',
                    f'after {opk}: data.synthetic holds values that a fresh '
                    f'simulation with the current model does not produce',
                    quantity='synthetic', op=opk)
        if sim._misfit is not None:
            self._cmp(ctx, ('ok', np.array(float(sim._misfit))),
                      self._fresh(ctx, cfg, obj.version, 'misfit'),
                      'history_dependence', 'misfit', opk,
                      f'cached misfit after {opk}')
        if sim._gradient is not None:
            self._cmp(ctx, ('ok', np.array(sim._gradient)),
                      self._fresh(ctx, cfg, obj.version, 'gradient'),
                      'history_dependence', 'gradient', opk,
                      f'cached gradient after {opk}')

    # -- one step -----------------------------------------------------------
    def _step(self, ctx, cfg, live, op):
        import emg3d
        k = op['op']
        t = op['t'] % len(live)
        obj = live[t]
        sim = obj.sim
        ctx.kinds.append(k)
        others = [(o, self._snapshot(o.sim)) for o in live if o is not obj]
        srcs = list(sim.survey.sources)
        freqs = list(sim.survey.frequencies)
        ctx.pool.new_op(op.get('faults', ()))
        ctx.io.new_op(())
        new = None
        with simpool.installed(ctx.pool, cfg['backend'], False):
            if k in ('compute', 'misfit', 'gradient', 'jvec', 'jtvec',
                     'get_efield', 'get_hfield'):
                got = self._observe(ctx, cfg, obj, op, srcs, freqs)
                fired = any(f.get('fired') for f in ctx.pool.faults)
                if got[0] == 'exc' and fired:
                    # after an injected fault: old or nothing; then retry,
                    # or give the operation up and reset the object
                    ctx.stats.probe('op_failed_by_fault')
                    self._check_state(ctx, cfg, obj, k + '(failed)')
                    ctx.pool.new_op(())
                    if op.get('giveup') == 'clean':
                        sim.clean('computed')
                        ctx.stats.probe('gave_up_after_fault')
                        ctx.event(k + '/giveup')
                        got = None
                    elif op.get('giveup') == 'ignore':
                        # the caller neither repeats the operation nor
                        # resets the object, it just carries on: nothing
                        # half-done may be taken for done later
                        ctx.stats.probe('carried_on_after_fault')
                        ctx.event(k + '/ignored')
                        got = None
                    else:
                        got = self._observe(ctx, cfg, obj, op, srcs, freqs)
                # (no early return: the state and independence checks at the
                # end of the step apply to a given-up operation as well)
                if got is not None:
                    want = self._want(ctx, cfg, obj, op, srcs, freqs)
                    self._cmp(ctx, got, want, 'history_dependence', k, k,
                              f'{k} on object {obj.id}')
                    ctx.event(k, {'t': obj.id, 'out': _sh(got)})
            elif k == 'partial':
                _ = _outcome(lambda: sim.misfit)
                if op['how'] == 'keepresults':
                    sim.clean('keepresults')
                else:
                    path = os.path.join(ctx.scratch,
                                        f"part{ctx.opi}.{op['fmt']}")
                    sim.to_file(path, what='results', verb=0)
                    new_sim = emg3d.Simulation.from_file(path, verb=0)
                    obj.sim = sim = new_sim
                if not cfg.get('layered'):
                    got = self._observe(ctx, cfg, obj,
                                        dict(op, op='get_efield'), srcs,
                                        freqs)
                    want = self._want(ctx, cfg, obj,
                                      dict(op, op='get_efield'), srcs, freqs)
                    self._cmp(ctx, got, want, 'history_dependence',
                              'get_efield', k, f'get_efield on object '
                              f'{obj.id} with results but no fields')
                ctx.stats.probe('partial_fields')
                ctx.event(k, op['how'])
            elif k == 'clean':
                sim.clean(op['what'])
                ctx.event(k, op['what'])
            elif k == 'copy':
                new = Obj(sim.copy(op['what']), obj.version, ctx.nobj)
                ctx.event(k, op['what'])
            elif k == 'dict':
                d = sim.to_dict(op['what'], copy=True)
                new = Obj(emg3d.Simulation.from_dict(d), obj.version,
                          ctx.nobj)
                ctx.event(k, op['what'])
            elif k in ('file', 'restart'):
                new = self._file(ctx, cfg, obj, op)
                if k == 'restart' and new is not None:
                    new.id = obj.id
                    live[t] = new
                    new = None
                    ctx.stats.probe('restart_from_file')
            elif k == 'update':
                v = obj.version + 1 + (ctx.opi % 3)
                m = self._model(cfg, v)
                if op['mode'] == 'replace':
                    sim.model = m
                else:
                    sim.model.property_x = m.property_x
                    if m.property_y is not None:
                        sim.model.property_y = m.property_y
                    if m.property_z is not None:
                        sim.model.property_z = m.property_z
                sim.clean(op['clean'])
                obj.version = v
                ctx.event(k, {'v': v, 'mode': op['mode']})
        if new is not None:
            ctx.nobj += 1
            # a copy / reload reports what its original reported
            live.append(new)
            if len(live) > 5:
                del live[1]
        # what every touched object reports must be fresh-consistent
        for o in ([live[t]] + ([live[-1]] if new is not None else [])):
            self._check_state(ctx, cfg, o, k)
        # independence: objects that were not operated on are unchanged
        for o, snap in others:
            if o not in live:
                continue
            now = self._snapshot(o.sim)
            for key in sorted(set(snap) | set(now)):
                if snap.get(key) != now.get(key):
                    raise Violation(
                        'copy_not_independent',
                        f'{k} on object {obj.id} changed {key} of object '
                        f'{o.id} ({snap.get(key)} -> {now.get(key)})',
                        quantity=key.split('/')[0], op=k)

    def _observe(self, ctx, cfg, obj, op, srcs, freqs):
        sim, k = obj.sim, op['op']
        if k == 'compute':
            def f():
                sim.compute()
                return sim.data.synthetic.data.copy()
        elif k == 'misfit':
            def f():
                return np.array(float(sim.misfit))
        elif k == 'gradient':
            def f():
                return np.array(sim.gradient)
        elif k == 'jvec':
            def f():
                return np.array(sim.jvec(_vec(sim, op['vseed'])))
        elif k == 'jtvec':
            def f():
                _ = sim.misfit
                return np.array(sim.jtvec(_wvec(sim, op['vseed'])))
        elif k == 'get_efield':
            def f():
                return sim.get_efield(srcs[op['s'] % len(srcs)],
                                      freqs[op['f'] % len(freqs)]
                                      ).field.copy()
        else:
            def f():
                return sim.get_hfield(srcs[op['s'] % len(srcs)],
                                      freqs[op['f'] % len(freqs)]
                                      ).field.copy()
        return _outcome(f)

    def _want(self, ctx, cfg, obj, op, srcs, freqs):
        k, v = op['op'], obj.version
        if k == 'compute':
            return self._fresh(ctx, cfg, v, 'synthetic')
        if k in ('misfit', 'gradient'):
            return self._fresh(ctx, cfg, v, k)
        if k in ('jvec', 'jtvec'):
            return self._fresh(ctx, cfg, v, k, op['vseed'])
        if cfg.get('layered'):
            fresh = self._build(cfg, v, None, 1)      # no fields in 1D mode
            s, f = srcs[op['s'] % len(srcs)], freqs[op['f'] % len(freqs)]
            get = fresh.get_efield if k == 'get_efield' else fresh.get_hfield
            return _outcome(lambda: get(s, f).field.copy())
        base = self._fresh(ctx, cfg, v, 'efields')[1]
        s, f = srcs[op['s'] % len(srcs)], freqs[op['f'] % len(freqs)]
        if k == 'get_efield':
            return _outcome(lambda: base.get_efield(s, f).field.copy())
        return _outcome(lambda: base.get_hfield(s, f).field.copy())

    def _file(self, ctx, cfg, obj, op):
        import emg3d
        sim = obj.sim
        path = os.path.join(ctx.scratch, f"sim{ctx.opi}.{op['fmt']}")
        ctx.io.new_op(op.get('iofaults', ()))
        failed = None
        with iofault.installed(ctx.io):
            try:
                sim.to_file(path, what=op['what'], verb=0)
            except OSError as e:
                failed = e
            except Exception as e:      # noqa
                raise Violation(
                    'reload_differs',
                    f"to_file(what={op['what']!r}) to .{op['fmt']} raised "
                    f'{type(e).__name__}: {str(e)[:200]}',
                    quantity='to_file/' + op['fmt'], op=op['op'])
        if failed is not None:
            ctx.stats.probe('failed_save')
            # the object must stay usable and truthful: a plain to_dict
            # right after must honour its own `what`
            d = sim.to_dict('plain')
            if 'gradient' in d or '_dict_efield' in d:
                raise Violation(
                    'poisoned_after_fault',
                    f"after a failed to_file(what={op['what']!r}) the next "
                    f"to_dict('plain') exported computed results",
                    quantity='to_dict', op=op['op'])
            ctx.io.new_op(())
            with iofault.installed(ctx.io):
                sim.to_file(path, what=op['what'], verb=0)
        with iofault.installed(ctx.io), warnings.catch_warnings(
                record=True) as wlist:
            warnings.simplefilter('always')
            new = emg3d.Simulation.from_file(path, verb=0)
        if not isinstance(new, emg3d.Simulation):
            msg = '; '.join(str(w.message)[:200] for w in wlist)
            raise Violation(
                'reload_differs',
                f"from_file of a simulation saved with what={op['what']!r} "
                f"as .{op['fmt']} returned a {type(new).__name__}, not a "
                f'Simulation ({msg})', quantity='from_file', op=op['op'])
        ctx.event(op['op'], {'fmt': op['fmt'], 'what': op['what'],
                             'failed': bool(failed)})
        return Obj(new, obj.version, ctx.nobj)


def _vec(sim, seed):
    g = np.random.default_rng(seed)
    n = {'isotropic': 1, 'HTI': 2, 'VTI': 2, 'triaxial': 3}[sim.model.case]
    v = g.standard_normal((n, *sim.model.shape))
    return v[0] if (n == 1 and seed % 2) else v


def _wvec(sim, seed):
    g = np.random.default_rng(seed)
    return (g.standard_normal(sim.survey.shape) +
            1j * g.standard_normal(sim.survey.shape))


def _outcome(f):
    try:
        return ('ok', f())
    except Exception as e:      # noqa
        return ('exc', type(e).__name__, str(e)[:200])


def _sh(o):
    if o[0] == 'exc':
        return f'raises {o[1]}({o[2][:80] if len(o) > 2 else ""})'
    return 'value ' + ahash(o[1])
