"""RNG seam: `numpy.random.default_rng()` *without a seed* (as
`emg3d.surveys.random_noise` calls it) returns a generator derived from the
run seed, the current op index and a per-op call counter."""
import contextlib

import numpy as np

_real = np.random.default_rng


@contextlib.contextmanager
def installed(ctx):
    ctx.rng_counts = {}      # a machine may reset it to re-align a twin run

    def fake(seed=None, *a, **kw):
        if seed is None and not a and not kw:
            counts = ctx.rng_counts
            n = counts.get(ctx.opi, 0)
            counts[ctx.opi] = n + 1
            ctx.stats.seam('rng')
            base = getattr(ctx, 'rng_base', ctx.seed)
            return _real([base % (2**32), ctx.opi, n])
        return _real(seed, *a, **kw)
    np.random.default_rng = fake
    try:
        yield
    finally:
        np.random.default_rng = _real
