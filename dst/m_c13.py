"""C13 — misfit and data weights follow the documented noise model and stay
untouched.

Histories of operations on live `Survey` objects (assign / add_noise /
select / copy / dict and file round trips with write faults / restart from
file / misfit through a tiny real Simulation / permutation), checked after
every step against a reference model that only changes on explicit
assignment.  RNG, clock and file I/O are behind seams.
"""
import copy
import os
import warnings

import numpy as np

from dst import gen, iofault, rngseam, clock as vclock
from dst.engine import Violation, ahash
from dst.machine import Machine, quiet

GRID = {'hx': [200.0] * 4, 'hy': [200.0] * 4, 'hz': [200.0] * 4,
        'origin': [-400.0, -400.0, -400.0]}
FMTS = ['h5', 'npz', 'json']


def realise(spec, shape):
    """Value of a noise-setting spec: None | float | broadcastable array."""
    if spec is None or spec['kind'] == 'none':
        return None
    g = np.random.default_rng([spec['seed'], 99])
    base = spec['base']
    shp = {'scalar': (), 'src': (shape[0], 1, 1), 'rec': (1, shape[1], 1),
           'freq': (1, 1, shape[2]), 'full': shape}[spec['kind']]
    val = base * 10 ** g.uniform(-0.5, 0.5, shp)
    return float(val) if spec['kind'] == 'scalar' else val


def stored(value, shape):
    """How an assigned value is documented to be reported back."""
    if value is None:
        return None
    v = np.asarray(value)
    if v.size == 1:
        return float(v.reshape(-1)[0])
    return np.ones(shape) * v


class Ref:
    """Reference model of one survey: changes only on explicit assignment."""

    def __init__(self, srcs, recs, freqs, data, nf, re, std=None):
        self.srcs, self.recs, self.freqs = list(srcs), list(recs), list(freqs)
        self.data = {k: np.array(v) for k, v in data.items()}
        self.nf, self.re, self.std = nf, re, std

    @property
    def shape(self):
        return (len(self.srcs), len(self.recs), len(self.freqs))

    def copy(self):
        return copy.deepcopy(self)

    def expected_std(self):
        if self.std is not None:
            return self.std
        if self.nf is None and self.re is None:
            return None
        out = np.zeros(self.shape)
        if self.nf is not None:
            out = out + np.asarray(self.nf) ** 2
        if self.re is not None:
            out = out + (np.asarray(self.re) *
                         np.abs(self.data['observed'])) ** 2
        return np.sqrt(out)

    def sub(self, isrc, irec, ifreq):
        ix = np.ix_(isrc, irec, ifreq)

        def cut(v):
            return v[ix].copy() if isinstance(v, np.ndarray) else v
        return Ref([self.srcs[i] for i in isrc], [self.recs[i] for i in irec],
                   [self.freqs[i] for i in ifreq],
                   {k: v[ix] for k, v in self.data.items()},
                   cut(self.nf), cut(self.re), cut(self.std))


class C13(Machine):
    chunk = 16      # runs per forked process (see runner._child)
    pid = 'C13'
    rule = ("one run = a generated survey (1x1x1 .. 4x4x3, NaN gaps, scalar "
            "or array noise settings) and a history of <=10 operations over "
            "the live surveys (assign, add_noise, select, copy, dict/file "
            "round trip with write faults, restart from file, misfit, "
            "permutation); non-trivial = an array-valued noise setting was "
            "alive across >=2 mutating/deriving operations; distinct = "
            "distinct trace digest")
    components_real = ['emg3d.surveys.Survey', 'emg3d.surveys.random_noise',
                       'emg3d.io (h5/npz/json)',
                       'emg3d.simulations.Simulation (tiny, for misfit)',
                       'emg3d.solver', 'xarray']
    components_stub = ['numpy.random.default_rng() -> seeded generator',
                       'wall clock -> VirtualClock',
                       'fault layer in front of h5py/numpy/json writes']
    assumptions = ['the reference model encodes the documented formulas of '
                   'Survey.standard_deviation, add_noise and random_noise']
    required_seams = ['rng']

    def plan(self, tier):
        if tier == 'quick':
            return {'runs': 3000, 'budget_s': 600, 'det_runs': 3,
                    'run_timeout': 120, 'shrink_s': 90}
        return {'runs': 120000, 'budget_s': 2400, 'det_runs': 5,
                'run_timeout': 120, 'shrink_s': 200}

    # ---------------------------------------------------------------- gen
    def _spec(self, rng, base, allow_none=True):
        kinds = ['scalar', 'src', 'rec', 'freq', 'full', 'full']
        if allow_none:
            kinds.append('none')
        return {'kind': rng.choice(kinds), 'seed': rng.randint(0, 10**6),
                'base': base}

    def gen(self, rng, tier, index):
        if rng.random() < 0.1:
            shape = ((1, 1), (1, 1), (1, 1))
        else:
            shape = ((1, 4), (1, 4), (1, 3))
        survey = gen.gen_survey(rng, GRID, nsrc=shape[0], nrec=shape[1],
                                nfreq=shape[2],
                                src_kinds=('dipole', 'point', 'mdipole'),
                                noise=False)
        survey['nan_frac'] = rng.choice([0.0, 0.2, 0.4])
        config = {'survey': survey,
                  'nf': self._spec(rng, rng.choice([1e-15, 1e-13, 3e-13])),
                  're': self._spec(rng, rng.choice([0.02, 0.1]))}
        ops = []
        n = rng.randint(3, 10)
        for _ in range(n):
            ops.append(self._gen_op(rng))
        return {'config': config, 'ops': ops}

    def _gen_op(self, rng):
        k = rng.choice(['set_invalid', 'simcopy', 'set_nf', 'set_re',
                        'set_std', 'add_noise',
                        'add_noise', 'add_noise', 'select', 'select', 'copy',
                        'dict', 'file', 'restart', 'misfit', 'permute'])
        op = {'op': k, 't': rng.randrange(8)}
        if k == 'set_nf':
            op['spec'] = self._spec(rng, rng.choice([1e-15, 1e-13, 3e-13]))
        elif k == 'set_re':
            op['spec'] = self._spec(rng, rng.choice([0.02, 0.1]))
        elif k == 'set_std':
            op['spec'] = rng.choice([
                {'kind': 'none'}, {'kind': 'full', 'base': 2e-14,
                                   'seed': rng.randint(0, 10**6)}])
        elif k == 'set_invalid':
            op['which'] = rng.choice(['noise_floor', 'relative_error',
                                      'standard_deviation'])
            op['bad'] = rng.choice([0.0, -1e-15])
            op['seed'] = rng.randint(0, 10**6)
        elif k == 'simcopy':
            op['what'] = rng.choice(['computed', 'results', 'all', 'plain'])
        elif k == 'add_noise':
            op.update(
                ntype=rng.choice(['white_noise', 'gaussian_correlated',
                                  'gaussian_uncorrelated']),
                mean=rng.choice([0.0, 0.0, 0.5, -1.0]),
                min_offset=rng.choice([0.0, 0.0, 60.0, 150.0]),
                max_offset=rng.choice([None, None, 120.0, 250.0]),
                min_amp=rng.choice(['half_nf', 'half_nf', 'half_nf', None,
                                    8e-14]),
                add_to=rng.choice(['observed', 'observed', 'noisy']))
        elif k == 'select':
            op.update(src=self._subset(rng), rec=self._subset(rng),
                      freq=self._subset(rng),
                      remove_empty=rng.random() < 0.5,
                      single=rng.random() < 0.2)
        elif k in ('file', 'restart'):
            op['fmt'] = rng.choice(FMTS)
            if rng.random() < 0.35:
                op['iofaults'] = [{
                    'kind': rng.choice(['enospc', 'eio']), 'who': 'any',
                    'match': '', 'nth': 0, 'k': rng.randint(1, 12),
                    'event': rng.choice(['open_w', 'dataset', 'dataset',
                                         'close_w'])}]
        elif k == 'permute':
            op['seed'] = rng.randint(0, 10**6)
        return op

    def _subset(self, rng):
        """None (all) or a list of 8 pseudo-random ranks used to pick a
        non-empty subset of whatever size the dimension has."""
        if rng.random() < 0.35:
            return None
        return {'mask': [rng.random() < 0.6 for _ in range(4)],
                'reorder': rng.random() < 0.15}

    def simplify(self, case):
        out = []
        c = case['config']
        for key in ('nf', 're'):
            if c[key]['kind'] not in ('none', 'scalar'):
                n = copy.deepcopy(case)
                n['config'][key]['kind'] = 'scalar'
                out.append(n)
        s = c['survey']
        for key in ('sources', 'receivers', 'frequencies'):
            if len(s[key]) > 1:
                n = copy.deepcopy(case)
                del n['config']['survey'][key][-1]
                out.append(n)
        if s.get('nan_frac'):
            n = copy.deepcopy(case)
            n['config']['survey']['nan_frac'] = 0.0
            out.append(n)
        return out

    # ---------------------------------------------------------------- run
    def run(self, ctx, case):
        import emg3d
        cfg = case['config']
        ctx.io = iofault.IOSim(ctx, None)
        with vclock.installed(ctx.clock, ctx.stats), \
                rngseam.installed(ctx), quiet():
            sv = gen.build_survey(cfg['survey'])
            # explicit keys, so that reference and survey agree on names
            shape = sv.shape
            nf, re = realise(cfg['nf'], shape), realise(cfg['re'], shape)
            sv.noise_floor = nf
            sv.relative_error = re
            ref = Ref(sv.sources.keys(), sv.receivers.keys(),
                      sv.frequencies.keys(),
                      {'observed': sv.data.observed.data.copy()},
                      stored(nf, shape), stored(re, shape))
            live = [[sv, ref]]
            ctx.live = live
            ctx.array_alive = 0
            self._check_all(ctx, live, 'init')
            ctx.event('init', {'shape': list(shape)})
            for i, op in enumerate(case['ops']):
                ctx.opi = i
                self._step(ctx, live, op)
                self._check_all(ctx, live, op['op'])
        ctx.nontrivial = ctx.array_alive >= 2

    # -- the global invariant --------------------------------------------
    def _check_all(self, ctx, live, opk):
        for j, (sv, ref) in enumerate(live):
            self._check(ctx, sv, ref, opk, j)

    def _check(self, ctx, sv, ref, opk, j):
        if tuple(sv.shape) != ref.shape or \
                list(sv.sources) != ref.srcs or \
                list(sv.receivers) != ref.recs or \
                list(sv.frequencies) != ref.freqs:
            raise Violation('selection_content',
                            f'survey {j}: shape/names {sv.shape} '
                            f'{list(sv.sources)} differ from the reference '
                            f'{ref.shape} {ref.srcs}', quantity='names',
                            op=opk)
        for name, want in (('noise_floor', ref.nf),
                           ('relative_error', ref.re)):
            got = getattr(sv, name)
            if not _same_setting(got, want):
                raise Violation(
                    'setting_changed',
                    f'survey {j}: {name} is {_show(got)} but the last '
                    f'explicit assignment was {_show(want)} (after {opk})',
                    quantity=name, op=opk)
        std = sv.standard_deviation
        want = ref.expected_std()
        if (std is None) != (want is None):
            raise Violation('std_formula',
                            f'survey {j}: standard_deviation is '
                            f'{_show(std)}, expected {_show(want)}',
                            quantity='standard_deviation', op=opk)
        if std is not None:
            got = np.asarray(std.data if hasattr(std, 'data') else std)
            if ref.std is not None:
                ok = got.shape == want.shape and np.array_equal(got, want)
                cls = 'setting_changed'
            else:
                ok = got.shape == want.shape and np.allclose(
                    got, want, rtol=1e-13, atol=0, equal_nan=True)
                cls = 'std_formula'
            if not ok:
                raise Violation(
                    cls, f'survey {j}: standard_deviation {_show(got)} != '
                    f'{_show(want)} (after {opk})',
                    quantity='standard_deviation', op=opk)
        names = {k for k in sv.data.keys() if not k.startswith('_') and
                 k != 'standard_deviation'}
        if names != set(ref.data):
            raise Violation('selection_content',
                            f'survey {j}: data sets {sorted(names)} != '
                            f'{sorted(ref.data)}', quantity='datasets',
                            op=opk)
        for k, v in ref.data.items():
            got = sv.data[k].data
            if got.shape != v.shape or ahash(got) != ahash(v):
                raise Violation(
                    'selection_content' if opk == 'select' else
                    'setting_changed',
                    f'survey {j}: data set {k!r} changed or differs from '
                    f'the reference after {opk}', quantity='data:' + k,
                    op=opk)

    # -- operations ---------------------------------------------------------
    def _step(self, ctx, live, op):
        import emg3d
        k = op['op']
        t = op['t'] % len(live)
        sv, ref = live[t]
        shape = ref.shape
        if any(isinstance(x, np.ndarray) for x in (ref.nf, ref.re, ref.std)):
            ctx.array_alive += 1
        if k in ('set_nf', 'set_re', 'set_std'):
            val = realise(op['spec'], shape)
            name = {'set_nf': 'noise_floor', 'set_re': 'relative_error',
                    'set_std': 'standard_deviation'}[k]
            try:
                setattr(sv, name, val)
            except Exception as e:      # noqa
                raise Violation(
                    'assignment_rejected',
                    f'assigning a valid {op["spec"]["kind"]} value '
                    f'{_show(val)} to {name} of a {shape} survey raised '
                    f'{type(e).__name__}: {e}', quantity=name, op=k)
            if k == 'set_nf':
                ref.nf = stored(val, shape)
            elif k == 'set_re':
                ref.re = stored(val, shape)
            else:
                ref.std = None if val is None else np.array(val)
            ctx.event(k, op['spec']['kind'])
        elif k == 'set_invalid':
            # a refused assignment (a value <= 0) must raise and must leave
            # everything as it was (checked by the global invariant)
            g = np.random.default_rng(op['seed'])
            val = 1e-14 * 10 ** g.uniform(-1, 1, shape)
            val.flat[int(g.integers(val.size))] = op['bad']
            try:
                setattr(sv, op['which'], val)
                raised = False
            except ValueError:
                raised = True
            if not raised:
                raise Violation('assignment_rejected',
                                f"assigning a {op['which']} array with the "
                                f"entry {op['bad']} was accepted",
                                quantity=op['which'], op=k)
            ctx.stats.probe('refused_assignment')
            ctx.event(k, op['which'])
        elif k == 'simcopy':
            # a Simulation built on the survey, copied: the copy's survey
            # carries the same settings and data
            sim = self._simulate(sv)
            new = sim.copy(op['what'])
            nref = ref.copy()
            for name in ('synthetic', 'residual', 'weights'):
                if op['what'] == 'plain':
                    nref.data.pop(name, None)
            # the constructor adds (NaN) synthetic data to the survey it got
            ref.data['synthetic'] = sv.data['synthetic'].data.copy()
            nref.data['synthetic'] = new.survey.data['synthetic'].data.copy()
            if op['what'] != 'plain' and ahash(nref.data['synthetic']) != \
                    ahash(ref.data['synthetic']):
                raise Violation('setting_changed', 'synthetic data of a '
                                f"copy(what={op['what']!r}) differ",
                                quantity='data:synthetic', op=k)
            live.append([new.survey, nref])
            ctx.event(k, op['what'])
        elif k == 'add_noise':
            self._add_noise(ctx, sv, ref, op)
        elif k == 'select':
            self._select(ctx, live, sv, ref, op)
        elif k == 'copy':
            live.append([sv.copy(), ref.copy()])
            ctx.event(k)
        elif k == 'dict':
            d = sv.to_dict(copy=bool(op['t'] % 2))
            new = emg3d.Survey.from_dict(copy.deepcopy(d))
            live.append([new, ref.copy()])
            ctx.event(k)
        elif k in ('file', 'restart'):
            self._file(ctx, live, t, op)
        elif k == 'misfit':
            self._misfit(ctx, sv, ref, op)
        elif k == 'permute':
            self._permute(ctx, sv, ref, op)
        if len(live) > 6:
            del live[1]

    def _add_noise(self, ctx, sv, ref, op):
        add_to = op['add_to']
        shape = ref.shape
        before = ref.data.get(add_to, np.zeros(shape, dtype=complex)).copy()
        obs = ref.data['observed'].copy()
        std = ref.expected_std()
        kw = {'min_offset': op['min_offset'], 'min_amplitude': op['min_amp'],
              'add_to': add_to, 'ntype': op['ntype'],
              'mean_noise': op['mean']}
        if op['max_offset'] is not None:
            kw['max_offset'] = op['max_offset']
        sv.add_noise(**kw)
        after = sv.data[add_to].data.copy()
        # expected cuts
        cut = np.zeros(shape, bool)
        ma = op['min_amp']
        if ma == 'half_nf':
            ma = None if ref.nf is None else np.asarray(ref.nf) / 2.0
        if ma is not None:
            with np.errstate(invalid='ignore'):
                cut |= np.abs(obs) < ma
        lo = op['min_offset']
        hi = np.inf if op['max_offset'] is None else op['max_offset']
        for i, s in enumerate(sv.sources.values()):
            for j, r in enumerate(sv.receivers.values()):
                off = np.linalg.norm(r.center_abs(s) - s.center)
                if off < lo or off > hi:
                    cut[i, j, :] = True
        if not np.isnan(after[cut]).all():
            raise Violation('cut_mask',
                            f'add_noise: entries below min_amplitude='
                            f"{op['min_amp']} / outside the offset range are "
                            f'not all NaN', quantity='cut', op='add_noise')
        keep = ~cut & np.isfinite(before)
        if std is not None:
            keep &= np.isfinite(std) & (std > 0)
        extra_nan = np.isnan(after) & keep
        if extra_nan.any():
            raise Violation('cut_mask',
                            f'add_noise: {int(extra_nan.sum())} entries '
                            f'became NaN although they are neither below '
                            f'min_amplitude nor outside the offset range',
                            quantity='cut', op='add_noise')
        if std is None:
            if not np.array_equal(after[keep], before[keep]):
                raise Violation('noise_form', 'noise was added although no '
                                'standard deviation is defined',
                                quantity=op['ntype'], op='add_noise')
        else:
            z = (after[keep] - before[keep]) / std[keep] - \
                (1 + 1j) * op['mean']
            # rounding: after = before + noise loses bits when the noise is
            # much smaller than the datum
            mag = np.abs(before[keep]) / std[keep]
            tol = 1e-9 + 4e-15 * mag
            if op['ntype'] == 'white_noise':
                bad = np.abs(np.abs(z) - 1.0) > tol
            elif op['ntype'] == 'gaussian_correlated':
                bad = np.abs(z.real - z.imag) > tol
            else:
                bad = ~np.isfinite(z)
            if bad.any():
                raise Violation(
                    'noise_form',
                    f"add_noise({op['ntype']}): (after-before)/std - "
                    f"(1+i)*mean has not the documented form at "
                    f'{int(bad.sum())} entries (e.g. {z[bad][:2]})',
                    quantity=op['ntype'], op='add_noise')
            ctx.stats.probe('noise_form_checked', int(keep.sum()))
        if cut.any():
            ctx.stats.probe('cut_entries', int(cut.sum()))
        ref.data[add_to] = after
        ctx.event('add_noise', {'to': add_to, 'hash': ahash(after)})

    def _pick(self, sub, n):
        if sub is None:
            return None
        idx = [i for i in range(n) if sub['mask'][i % 4]]
        if not idx:
            idx = [0]
        if sub['reorder']:
            idx = idx[::-1]
        return idx

    def _select(self, ctx, live, sv, ref, op):
        ns, nr, nfq = ref.shape
        isrc, irec, ifreq = (self._pick(op['src'], ns),
                             self._pick(op['rec'], nr),
                             self._pick(op['freq'], nfq))
        if isrc is None and irec is None and ifreq is None:
            # select() without any argument returns xarray *views* of the
            # parent's data (an empty .sel()); whether a selection is
            # independent of its parent is not part of C13, so the machine
            # does not generate that degenerate call (see DESIGN.md).
            ifreq = list(range(nfq))
        kw = {}
        if isrc is not None:
            kw['sources'] = [ref.srcs[i] for i in isrc]
        if irec is not None:
            kw['receivers'] = [ref.recs[i] for i in irec]
        if ifreq is not None:
            kw['frequencies'] = [ref.freqs[i] for i in ifreq]
        if op.get('single'):
            for key in kw:
                if len(kw[key]) == 1:
                    kw[key] = kw[key][0]
        new = sv.select(remove_empty=op['remove_empty'], **kw)
        a = list(range(ns)) if isrc is None else isrc
        b = list(range(nr)) if irec is None else irec
        c = list(range(nfq)) if ifreq is None else ifreq
        nref = ref.sub(a, b, c)
        if op['remove_empty']:
            obs = nref.data['observed']
            if np.isfinite(obs).any():
                ks = [i for i in range(obs.shape[0])
                      if not np.isnan(obs[i]).all()]
                kr = [i for i in range(obs.shape[1])
                      if not np.isnan(obs[:, i]).all()]
                kf = [i for i in range(obs.shape[2])
                      if not np.isnan(obs[:, :, i]).all()]
                if (len(ks), len(kr), len(kf)) != obs.shape:
                    ctx.stats.probe('remove_empty_removed')
                nref = nref.sub(ks, kr, kf)
        live.append([new, nref])
        ctx.event('select', {'shape': list(nref.shape)})

    def _file(self, ctx, live, t, op):
        import emg3d
        sv, ref = live[t]
        path = os.path.join(ctx.scratch, f"sv{ctx.opi}.{op['fmt']}")
        ctx.io.new_op(op.get('iofaults', ()))
        failed = None
        with iofault.installed(ctx.io):
            try:
                sv.to_file(path, verb=0)
            except OSError as e:
                failed = e
        if failed is not None:
            # the survey must be unchanged and usable; a later save works
            self._check(ctx, sv, ref, 'file(failed)', t)
            ctx.stats.probe('failed_save')
            ctx.io.new_op(())
            with iofault.installed(ctx.io):
                sv.to_file(path, verb=0)
        with iofault.installed(ctx.io):
            new = emg3d.Survey.from_file(path, verb=0)
        ctx.event(op['op'], {'fmt': op['fmt'], 'failed': bool(failed)})
        if op['op'] == 'restart':
            live[t] = [new, ref.copy()]      # only durable state survives
            ctx.stats.probe('restart_from_file')
        else:
            live.append([new, ref.copy()])

    def _simulate(self, survey):
        import emg3d
        grid = gen.build_grid(GRID)
        model = emg3d.Model(grid, 1.0)
        with warnings.catch_warnings():
            warnings.simplefilter('ignore')
            sim = emg3d.Simulation(
                survey, model, gridding='same', max_workers=1,
                receiver_interpolation='linear', tqdm_opts=False,
                solver_opts={'maxit': 1, 'plain': True, 'verb': -1})
        return sim

    def _misfit(self, ctx, sv, ref, op):
        sim = self._simulate(sv)
        want_std = ref.expected_std()
        try:
            got = float(sim.misfit)
            err = None
        except ValueError as e:
            got, err = None, e
        if want_std is None:
            if err is None:
                raise Violation('misfit_formula', 'misfit returned a value '
                                'although no standard deviation is defined',
                                quantity='misfit', op='misfit')
            ctx.event('misfit', 'ValueError')
            # the failed attempt computed the synthetic data
            ref.data['synthetic'] = sv.data['synthetic'].data.copy()
            return
        if err is not None:
            raise Violation('misfit_formula', f'misfit raised {err} although '
                            f'a standard deviation is defined',
                            quantity='misfit', op='misfit')
        syn = sv.data['synthetic'].data
        obs = ref.data['observed']
        with np.errstate(invalid='ignore', divide='ignore'):
            terms = np.abs(syn - obs) ** 2 / want_std ** 2
        want = 0.5 * np.nansum(terms)
        if not np.isclose(got, want, rtol=1e-11, atol=0):
            raise Violation(
                'misfit_formula',
                f'misfit {got!r} != 1/2 sum |syn-obs|^2/std^2 = {want!r} '
                f'with the current standard deviation',
                quantity='misfit', op='misfit')
        ctx.stats.probe('misfit_checked')
        for k in ('synthetic', 'residual', 'weights'):
            ref.data[k] = sv.data[k].data.copy()
        ctx.event('misfit', repr(got))

    def _fresh(self, ref, order=None):
        """A new Survey built by the constructor from the reference."""
        import emg3d
        sv0 = self._cfg_survey
        a, b, c = order or (range(len(ref.srcs)), range(len(ref.recs)),
                            range(len(ref.freqs)))
        a, b, c = list(a), list(b), list(c)
        ix = np.ix_(a, b, c)

        def cut(v):
            return v[ix].copy() if isinstance(v, np.ndarray) else v
        new = emg3d.Survey(
            sources={ref.srcs[i]: sv0.sources[ref.srcs[i]] for i in a},
            receivers={ref.recs[i]: sv0.receivers[ref.recs[i]] for i in b},
            frequencies={ref.freqs[i]: sv0.frequencies[ref.freqs[i]]
                         for i in c},
            data={'observed': ref.data['observed'][ix].copy()},
            noise_floor=cut(ref.nf), relative_error=cut(ref.re))
        if ref.std is not None:
            new.standard_deviation = cut(ref.std)
        return new, ix

    def _permute(self, ctx, sv, ref, op):
        if ref.expected_std() is None:
            ctx.event('permute', 'skipped')
            return
        self._cfg_survey = sv
        g = np.random.default_rng(op['seed'])
        order = (g.permutation(len(ref.srcs)), g.permutation(len(ref.recs)),
                 g.permutation(len(ref.freqs)))
        A, _ = self._fresh(ref)
        B, ix = self._fresh(ref, order)
        sa, sb = self._simulate(A), self._simulate(B)
        ma, mb = float(sa.misfit), float(sb.misfit)
        if ahash(A.data.synthetic.data[ix]) != ahash(B.data.synthetic.data):
            raise Violation('misfit_order', 'synthetic data of the permuted '
                            'survey are not the permuted synthetic data',
                            quantity='synthetic', op='permute')
        if not np.isclose(ma, mb, rtol=1e-12, atol=0):
            raise Violation('misfit_order',
                            f'misfit changes under reordering: {ma!r} vs '
                            f'{mb!r}', quantity='misfit', op='permute')
        ctx.stats.probe('permutation_checked')
        ctx.event('permute', repr(ma))


def _same_setting(got, want):
    if want is None:
        return got is None
    if isinstance(want, float):
        return isinstance(got, float) and got == want
    return isinstance(got, np.ndarray) and got.shape == want.shape and \
        np.array_equal(got, want)


def _show(v):
    if v is None or isinstance(v, float):
        return repr(v)
    v = np.asarray(v)
    return f'array{v.shape} [{v.reshape(-1)[:3]}...]'
