"""C17 — save and load round-trip every emg3d object in every file format.

A scratch directory is the disk; the machine keeps a reference map
`path -> structure of what was last saved successfully`.  Operations: save /
overwrite / convert / load / to_file / from_file, with injected write and
read faults (before, after k datasets, at close) and a virtual clock for
`_date`.  Objects are composed by a seeded generator over every registered
class.  Structural equality: same keys, same classes, numbers equal by value
and kind, arrays bit-wise with equal dtype and shape, emg3d objects compared
field by field through their `to_dict`.
"""
import copy
import os
import warnings

import numpy as np

from dst import gen, iofault, rngseam, clock as vclock
from dst.engine import Violation
from dst.machine import Machine, quiet

FMTS = ['h5', 'npz', 'json']
GRID = {'hx': [200.0] * 4, 'hy': [200.0] * 4, 'hz': [200.0] * 4,
        'origin': [-400.0, -400.0, -400.0]}
UNKNOWN = '<unknown after a failed write>'


# ======================================================================
# structure / equality
# ======================================================================
def struct(x):
    """Canonical, comparable structure of a saved / loaded value."""
    import emg3d
    if x is None:
        return ('none',)
    if isinstance(x, (bool, np.bool_)):
        return ('num', 'bool', bool(x))
    if isinstance(x, (int, np.integer)):
        return ('num', 'int', int(x))
    if isinstance(x, (float, np.floating)):
        return ('num', 'float', repr(float(x)))
    if isinstance(x, (complex, np.complexfloating)):
        return ('num', 'complex', repr(complex(x)))
    if isinstance(x, str):
        return ('str', x)
    if isinstance(x, np.ndarray):
        if x.ndim == 0:
            return struct(x[()])
        a = np.ascontiguousarray(x)
        return ('arr', a.dtype.str, tuple(a.shape), a.tobytes())
    if isinstance(x, dict):
        return ('dict', {str(k): struct(v) for k, v in x.items()},
                [str(k) for k in x])
    if isinstance(x, tuple(emg3d.utils._KNOWN_CLASSES.values())):
        name = type(x).__name__
        if name == 'Simulation':
            d = x.to_dict('all')
            d = {k: v for k, v in d.items() if k != 'tqdm_opts'}
            # what the object itself holds, not only what it exports
            d['_attr_tol_forward'] = x.tol_forward
            d['_attr_tol_gradient'] = x.tol_gradient
        else:
            d = x.to_dict()
        d = {k: v for k, v in d.items() if k != '__class__'}
        if hasattr(x, 'face_areas') and name != 'TensorMesh':
            name = 'TensorMesh'
        sd = struct(d)
        return ('obj', name, sd[1], sd[2])
    if hasattr(x, 'values') and hasattr(x, 'dims'):      # xarray
        return struct(np.asarray(x.values))
    if isinstance(x, (list, tuple)):
        return ('list', [struct(v) for v in x])
    return ('other', type(x).__name__)


def hollow(a):
    """A dictionary without any leaf value (empty, or holding only such
    dictionaries): the flat npz key space has nothing to store for it."""
    return a[0] == 'dict' and all(hollow(v) for v in a[1].values())


def prune_hollow(a):
    """The structure as an npz file holds it (known finding, §6)."""
    if a[0] == 'dict':
        keep = {k: prune_hollow(v) for k, v in a[1].items() if not hollow(v)}
        return ('dict', keep, [k for k in a[2] if k in keep])
    if a[0] == 'obj':
        return a
    return a


def diff(a, b, path='', ordered=False):
    """First difference between two structures, or None.  Inside emg3d
    objects the key order of dictionaries is significant (sources, receivers
    and frequencies are attached to the data arrays by position)."""
    if a[0] != b[0]:
        return f'{path}: {_s(a)} vs {_s(b)}'
    if a[0] == 'dict':
        ka, kb = set(a[1]), set(b[1])
        if ordered and ka == kb and len(a) > 2 and len(b) > 2 and \
                a[2] != b[2] and path.rsplit('/', 1)[-1] in (
                    'sources', 'receivers', 'frequencies'):
            return (f'{path}: key order differs: saved {a[2]}, loaded '
                    f'{b[2]} (names are attached to data by position)')
        if ka != kb:
            if not (kb - ka) and all(hollow(a[1][k])
                                     for k in ka - kb):
                return (f'{path}: EMPTY-DICT-DROPPED: the empty '
                        f'dictionaries {sorted(ka - kb)} are missing after '
                        f'load')
            return (f'{path}: keys differ: only saved {sorted(ka - kb)}, '
                    f'only loaded {sorted(kb - ka)}')
        for k in sorted(ka):
            d = diff(a[1][k], b[1][k], f'{path}/{k}', ordered)
            if d:
                return d
        return None
    if a[0] == 'obj':
        if a[1] != b[1]:
            return f'{path}: class {a[1]} vs {b[1]}'
        # (not for electrodes: their to_dict iterates over a set)
        return diff(('dict', a[2], a[3]), ('dict', b[2], b[3]),
                    f'{path}<{a[1]}>', a[1] in ('Survey', 'Simulation'))
    if a[0] == 'list':
        if len(a[1]) != len(b[1]):
            return f'{path}: list length'
        for i, (x, y) in enumerate(zip(a[1], b[1])):
            d = diff(x, y, f'{path}[{i}]', ordered)
            if d:
                return d
        return None
    if a != b:
        return f'{path}: {_s(a)} vs {_s(b)}'
    return None


def _s(a):
    if a[0] == 'arr':
        return f'array {a[1]}{a[2]}'
    if a[0] in ('dict', 'obj'):
        return a[0] if a[0] == 'dict' else f'<{a[1]}>'
    return repr(a)[:80]


# ======================================================================
# object specs -> objects
# ======================================================================
KEYS = ['a', 'b', 'val', 'Data', 'x1', 'name_', 'k9', 'Res', 'm', 'z_z']


def gen_plain(rng, depth):
    r = rng.random()
    if depth > 0 and r < 0.3:
        n = rng.randint(0 if rng.random() < 0.05 else 1, 3)
        return {'t': 'dict', 'items': {k: gen_plain(rng, depth - 1)
                                       for k in rng.sample(KEYS, n)}}
    t = rng.choice(['int', 'float', 'complex', 'bool', 'none', 'str', 'arr',
                    'arr', 'arr'])
    if t == 'int':
        return {'t': t, 'v': rng.choice([0, 1, -7, 123456789, 2**40])}
    if t == 'float':
        return {'t': t, 'v': rng.choice([0.0, -1.5, 1e-300, 3.14159e20,
                                         'nan', 'inf'])}
    if t == 'complex':
        return {'t': t, 'v': [rng.choice([0.0, 1.5, -2e-9]),
                              rng.choice([0.0, -3.25, 7e12])]}
    if t == 'bool':
        return {'t': t, 'v': rng.random() < 0.5}
    if t == 'none':
        return {'t': t}
    if t == 'str':
        return {'t': t, 'v': rng.choice(['', 'hello', 'Two words',
                                         'ünï-cødé', 'a>b', 'x__y', '42'])}
    return {'t': 'arr', 'dtype': rng.choice(['float64', 'float64',
                                             'complex128', 'int64']),
            'shape': rng.choice([[1], [3], [2, 3], [2, 1, 2], [4, 1]]),
            'seed': rng.randint(0, 10**6), 'nan': rng.random() < 0.2}


def gen_spec(rng):
    t = rng.choice(['plain', 'plain', 'mesh', 'model', 'model', 'field',
                    'field', 'tx', 'tx', 'rx', 'survey', 'survey',
                    'simulation', 'nested', 'custom', 'foreign'])
    if t == 'custom':
        # an instance of a user class registered with the documented
        # decorator - at the time it is first used, i.e. possibly after the
        # first save of the session
        return {'t': 'custom', 'seed': rng.randint(0, 10**6)}
    if t == 'foreign':
        # a dict that looks like a serialised object of an unknown class
        # (written by another version / another program), followed by
        # ordinary emg3d objects in the same dictionary
        return {'t': 'dict', 'items': {
            'aforeign': {'t': 'foreign', 'seed': rng.randint(0, 10**6)},
            'zmesh': {'t': 'mesh', 'grid': gen.gen_grid(rng, 2, 3,
                                                        even=False)},
            'ztx': {'t': 'tx', 'cls': 'TxElectricPoint', 'fmt': 'point',
                    'seed': rng.randint(0, 10**6), 'strength': 1.0,
                    'length': None}}}
    if t == 'plain':
        return gen_plain(rng, 3)
    if t == 'nested':
        return {'t': 'dict', 'items': {
            'inner': {'t': 'dict', 'items': {'obj': gen_spec(rng),
                                             'n': gen_plain(rng, 1)}},
            'other': gen_plain(rng, 2)}}
    if t == 'mesh':
        return {'t': 'mesh', 'grid': gen.gen_grid(rng, 2, 5, even=False)}
    if t == 'model':
        return {'t': 'model', 'grid': gen.gen_grid(rng, 2, 4, even=False),
                'model': gen.gen_model(rng, mu=True, eps=True),
                'scalar': rng.random() < 0.2}
    if t == 'field':
        return {'t': 'field', 'grid': gen.gen_grid(rng, 2, 4, even=False),
                'freq': rng.choice([1.0, 2.5, -3.0, None, None]),
                'electric': rng.random() < 0.7, 'seed': rng.randint(0, 10**6),
                'dtype': rng.choice(['complex128', 'float64'])}
    if t == 'tx':
        cls = rng.choice(['TxElectricPoint', 'TxMagneticPoint',
                          'TxElectricDipole', 'TxMagneticDipole',
                          'TxElectricWire'])
        return {'t': 'tx', 'cls': cls,
                'fmt': rng.choice(['point', 'flat', 'dipole']),
                'seed': rng.randint(0, 10**6),
                'strength': rng.choice([1.0, 2.5, [1.5, -0.5], 1]),
                'length': rng.choice([None, 1.0, 12.5])}
    if t == 'rx':
        return {'t': 'rx', 'cls': rng.choice(['RxElectricPoint',
                                              'RxMagneticPoint']),
                'seed': rng.randint(0, 10**6),
                'relative': rng.random() < 0.4}
    if t == 'survey':
        s = gen.gen_survey(rng, GRID, nsrc=(1, 3), nrec=(1, 3), nfreq=(1, 3))
        return {'t': 'survey', 'cfg': s,
                'nf': rng.choice(['none', 'scalar', 'src', 'full']),
                're': rng.choice(['none', 'scalar', 'freq', 'full']),
                'std': rng.random() < 0.25, 'extra': rng.random() < 0.4,
                'meta': rng.random() < 0.5, 'seed': rng.randint(0, 10**6)}
    s = gen.gen_survey(rng, GRID, nsrc=(1, 2), nrec=(1, 2), nfreq=(1, 1),
                       src_kinds=('dipole', 'point'))
    return {'t': 'simulation', 'cfg': s,
            'model': gen.gen_model(rng),
            'state': rng.choice(['plain', 'computed', 'gradient']),
            'gridding': rng.choice(['same', 'same', 'input']),
            'seed': rng.randint(0, 10**6)}


def build(spec, cache):
    """Object of a spec (cached per run: simulations are expensive)."""
    import emg3d
    key = repr(spec)
    if key in cache:
        return cache[key]
    t = spec['t']
    g = np.random.default_rng(spec.get('seed', 0))
    if t == 'dict':
        out = {k: build(v, cache) for k, v in spec['items'].items()}
    elif t in ('int', 'bool', 'str'):
        out = spec['v']
    elif t == 'float':
        out = float(spec['v'])
    elif t == 'complex':
        out = complex(*spec['v'])
    elif t == 'none':
        out = None
    elif t == 'arr':
        a = g.standard_normal(spec['shape']) * 10
        if spec['dtype'] == 'complex128':
            a = a + 1j * g.standard_normal(spec['shape'])
        if spec['nan'] and spec['dtype'] != 'int64':
            a.flat[0] = np.nan
        out = a.astype(spec['dtype'])
    elif t == 'custom':
        out = _station_class()(float(g.uniform(-1, 1)),
                               g.standard_normal(3))
    elif t == 'foreign':
        out = {'__class__': 'ClassOfAnotherProgram',
               'value': float(g.uniform()), 'arr': g.standard_normal(2)}
    elif t == 'mesh':
        out = gen.build_grid(spec['grid'])
    elif t == 'model':
        grid = gen.build_grid(spec['grid'])
        if spec['scalar']:
            out = emg3d.Model(grid, 2.5, mapping=spec['model']['mapping'])
        else:
            out = gen.build_model(spec['model'], grid)
    elif t == 'field':
        grid = gen.build_grid(spec['grid'])
        n = grid.n_edges if spec['electric'] else grid.n_faces
        data = g.standard_normal(n)
        if spec['freq'] is None and spec['dtype'] == 'complex128' or \
                (spec['freq'] or -1) > 0:
            data = data + 1j * g.standard_normal(n)
        out = emg3d.Field(grid, data=data, frequency=spec['freq'],
                          electric=spec['electric'])
    elif t == 'tx':
        cls = getattr(emg3d, spec['cls'])
        st = spec['strength']
        st = complex(*st) if isinstance(st, list) else st
        p = g.uniform(-100, 100, 3).round(2)
        q = g.uniform(-100, 100, 3).round(2)
        az, el = g.uniform(-90, 90, 2).round(1)
        if 'Point' in spec['cls']:
            out = cls((*p, az, el), strength=st)
        elif 'Wire' in spec['cls']:
            out = cls(np.array([p, q, g.uniform(-100, 100, 3).round(2)]),
                      strength=st)
        elif spec['fmt'] == 'point':
            kw = {} if spec['length'] is None else {'length': spec['length']}
            out = cls((*p, az, el), strength=st, **kw)
        elif spec['fmt'] == 'flat':
            out = cls((p[0], q[0], p[1], q[1], p[2], q[2]), strength=st)
        else:
            out = cls(np.array([p, q]), strength=st)
    elif t == 'rx':
        cls = getattr(emg3d, spec['cls'])
        p = g.uniform(-100, 100, 3).round(2)
        az, el = g.uniform(-90, 90, 2).round(1)
        out = cls((*p, az, el), relative=spec['relative'])
    elif t == 'survey':
        out = gen.build_survey(spec['cfg'])
        shape = out.shape

        def val(kind, base):
            shp = {'scalar': (), 'src': (shape[0], 1, 1),
                   'freq': (1, 1, shape[2]), 'full': shape}[kind]
            v = base * 10 ** g.uniform(-0.5, 0.5, shp)
            return float(v) if kind == 'scalar' else v
        out.noise_floor = None if spec['nf'] == 'none' else \
            val(spec['nf'], 1e-14)
        out.relative_error = None if spec['re'] == 'none' else \
            val(spec['re'], 0.05)
        if spec['std']:
            out.standard_deviation = 1e-14 * 10 ** g.uniform(-1, 1, shape)
        if spec['extra']:
            out.data['mydata'] = out.data.observed.copy(
                data=g.standard_normal(shape) + 1j * g.standard_normal(shape))
        if spec['meta']:
            out.name, out.date, out.info = 'Sürvey 1', '2030-01-01', 'in fo'
    elif t == 'simulation':
        survey = gen.build_survey(spec['cfg'])
        grid = gen.build_grid(GRID)
        model = gen.build_model(spec['model'], grid)
        kw = {}
        if spec['gridding'] == 'input':
            kw['gridding_opts'] = gen.build_grid(GRID)
        with warnings.catch_warnings():
            warnings.simplefilter('ignore')
            out = emg3d.Simulation(
                survey, model, gridding=spec['gridding'], max_workers=1,
                receiver_interpolation='linear', tqdm_opts=False,
                name='sim', info='c17',
                solver_opts={'maxit': 2, 'plain': True, 'verb': 1,
                             'tol_gradient': 1e-3}, **kw)
            if spec['state'] != 'plain':
                out.compute()
                _ = out.misfit
            if spec['state'] == 'gradient':
                _ = out.gradient
    else:
        raise ValueError(t)
    cache[key] = out
    return out


def _station_class():
    """A user class, registered with emg3d's decorator on first use."""
    import emg3d
    if 'Station' in emg3d.utils._KNOWN_CLASSES:
        return emg3d.utils._KNOWN_CLASSES['Station']

    @emg3d.utils._known_class
    class Station:
        def __init__(self, height, position):
            self.height = height
            self.position = np.asarray(position, dtype=float)

        def to_dict(self, copy=False):
            return {'__class__': 'Station', 'height': self.height,
                    'position': self.position.copy()}

        @classmethod
        def from_dict(cls, inp):
            return cls(inp['height'], inp['position'])
    return Station


# ======================================================================
# machine
# ======================================================================
class C17(Machine):
    chunk = 8      # runs per forked process (see runner._child)
    pid = 'C17'
    rule = ("one run = a history of <=8 store operations (save, overwrite, "
            "convert, to_file/from_file, load) over <=4 paths in the three "
            "formats, on seeded objects of every registered class and nested "
            "dictionaries (depth <=4), with injected write/read faults; "
            "after every operation every path whose last write succeeded is "
            "loaded and compared structurally with the reference map; "
            "non-trivial = a path was overwritten or converted at least "
            "once, or a fault fired; stratum single_roundtrip = runs with "
            "one save and one load; distinct = distinct trace digest")
    components_real = ['emg3d.io.save/load/convert', 'to_dict/from_dict of '
                       'every registered class', 'h5py/HDF5', 'numpy npz',
                       'json', 'emg3d.simulations.Simulation (tiny)']
    components_stub = ['fault layer in front of h5py.File / create_dataset / '
                       'numpy.savez_compressed / numpy.load / open',
                       'wall clock -> VirtualClock',
                       'numpy.random.default_rng() -> seeded']
    assumptions = ['structural equality is defined by the checker: numbers '
                   'by value and kind (a 0-d array counts as a scalar), '
                   'arrays bit-wise with dtype and shape, emg3d objects '
                   'through to_dict',
                   'generated values stay inside the domain io documents: '
                   'no lists, no boolean arrays, keys are plain identifiers, '
                   "no string 'NoneType'"]
    required_seams = ['io/open_w', 'io/open_r']

    def plan(self, tier):
        if tier == 'quick':
            return {'runs': 2000, 'budget_s': 600, 'det_runs': 3,
                    'run_timeout': 120, 'shrink_s': 120}
        return {'runs': 80000, 'budget_s': 3000, 'det_runs': 5,
                'run_timeout': 200, 'shrink_s': 200}

    def gen(self, rng, tier, index):
        single = rng.random() < 0.3
        nobj = rng.randint(2, 5)
        objs = [gen_spec(rng) for _ in range(nobj)]
        ops = []
        n = 1 if single else rng.randint(2, 8)
        for _ in range(n):
            k = rng.choice(['save', 'save', 'save', 'convert', 'convert',
                            'tofile'])
            op = {'op': k, 'path': rng.randrange(4), 'fmt': rng.choice(FMTS),
                  'objs': rng.sample(range(nobj), rng.randint(1, min(3,
                                                                     nobj))),
                  'dst': rng.randrange(4), 'dfmt': rng.choice(FMTS),
                  'what': rng.choice(['computed', 'results', 'all',
                                      'plain'])}
            if not single and rng.random() < 0.25:
                ev = rng.choice(['open_w', 'dataset', 'dataset', 'close_w',
                                 'open_r'])
                op['iofaults'] = [{
                    'kind': 'eio' if ev == 'open_r' else
                    rng.choice(['enospc', 'eio']), 'who': 'any', 'match': '',
                    'nth': 0, 'k': rng.randint(1, 25), 'event': ev}]
            ops.append(op)
        return {'config': {'objs': objs}, 'ops': ops}

    def simplify(self, case):
        out = []
        for i, o in enumerate(case['config']['objs']):
            if o['t'] == 'dict':
                for k in list(o['items']):
                    n = copy.deepcopy(case)
                    del n['config']['objs'][i]['items'][k]
                    if n['config']['objs'][i]['items']:
                        out.append(n)
                for k, v in o['items'].items():
                    n = copy.deepcopy(case)
                    n['config']['objs'][i] = v
                    out.append(n)
            if o['t'] == 'simulation' and o['state'] != 'plain':
                n = copy.deepcopy(case)
                n['config']['objs'][i]['state'] = 'plain'
                out.append(n)
            if o['t'] in ('survey', 'simulation'):
                for key in ('sources', 'receivers', 'frequencies'):
                    if len(o['cfg'][key]) > 1:
                        n = copy.deepcopy(case)
                        del n['config']['objs'][i]['cfg'][key][-1]
                        out.append(n)
        for op_i, op in enumerate(case['ops']):
            if len(op.get('objs', [])) > 1:
                for j in range(len(op['objs'])):
                    n = copy.deepcopy(case)
                    del n['ops'][op_i]['objs'][j]
                    out.append(n)
        return out

    # ---------------------------------------------------------------- run
    def run(self, ctx, case):
        ctx.io = iofault.IOSim(ctx, None)
        ctx.cache = {}
        ctx.refmap = {}
        ctx.rewritten = 0
        with vclock.installed(ctx.clock, ctx.stats), \
                rngseam.installed(ctx), quiet():
            for i, op in enumerate(case['ops']):
                ctx.opi = i
                ctx.clock.advance(1.0)
                self._step(ctx, case['config'], op)
                self._verify_all(ctx, op['op'])
        ctx.nontrivial = ctx.rewritten > 0 or bool(ctx.stats.faults)
        if len(case['ops']) == 1:
            ctx.stats.probe('stratum/single_roundtrip')

    def _path(self, ctx, slot, fmt):
        return os.path.join(ctx.scratch, f'store{slot}.{fmt}')

    def _expected_date(self, ctx):
        return ctx.clock.datetime_now().isoformat()

    def _save(self, ctx, path, named, op):
        """save() or to_file(); returns the reference entry."""
        import emg3d
        before = {k: struct(v) for k, v in named.items()}
        date = self._expected_date(ctx)
        if op['op'] == 'tofile' and len(named) == 1 and type(
                list(named.values())[0]).__name__ in ('Survey',
                                                      'Simulation'):
            name, obj = list(named.items())[0]
            if type(obj).__name__ == 'Simulation':
                obj.to_file(path, what=op['what'], name=name, verb=0)
                # what was asked to be stored
                d = obj.to_dict(op['what'], copy=True)
                twin = emg3d.Simulation.from_dict(d)
                entry = {name: struct(twin)}
            else:
                obj.to_file(path, name=name, verb=0)
                entry = {name: before[name]}
            ctx.stats.probe('to_file')
        else:
            emg3d.save(path, verb=0, **named)
            entry = dict(before)
        after = {k: struct(v) for k, v in named.items()}
        for k in before:
            d = diff(before[k], after[k], k)
            if d:
                raise Violation('input_mutated',
                                f'save changed the object passed as {d}',
                                quantity=_cls(named[k]), op=op['op'])
        entry['_date'] = ('str', date)
        return entry

    def _step(self, ctx, cfg, op):
        import emg3d
        k = op['op']
        ctx.io.new_op(op.get('iofaults', ()))
        if k in ('save', 'tofile'):
            path = self._path(ctx, op['path'], op['fmt'])
            named = {f'obj{j}': build(cfg['objs'][j], ctx.cache)
                     for j in op['objs']}
            if path in ctx.refmap:
                ctx.rewritten += 1
                ctx.stats.probe('overwrite')
            fn = lambda: self._save(ctx, path, named, op)      # noqa
        else:
            srcs = [p for p, v in ctx.refmap.items() if v != UNKNOWN]
            if not srcs:
                ctx.event(k, 'skipped')
                return
            src = sorted(srcs)[op['path'] % len(srcs)]
            path = self._path(ctx, op['dst'], op['dfmt'])
            if path == src:
                ctx.event(k, 'skipped')
                return
            if path in ctx.refmap:
                ctx.rewritten += 1
            ctx.rewritten += 1
            ctx.stats.feature('convert', src.rsplit('.')[-1], op['dfmt'])

            def fn():
                date = self._expected_date(ctx)
                emg3d.io.convert(src, path, verb=0)
                entry = dict(ctx.refmap[src])
                if src.endswith('.npz'):
                    # the source file does not hold them (known finding)
                    entry = {k: prune_hollow(v) for k, v in entry.items()
                             if not hollow(v)}
                entry['_date'] = ('str', date)
                return entry
        failed = None
        with iofault.installed(ctx.io):
            try:
                ctx.refmap[path] = fn()
            except OSError as e:
                if '[injected]' not in str(e):
                    raise
                failed = e
        if failed is not None:
            # nothing is asserted about the path itself ...
            ctx.refmap[path] = UNKNOWN
            ctx.stats.probe('failed_write')
            # ... but the next successful save must round-trip
            ctx.io.new_op(())
            with iofault.installed(ctx.io):
                try:
                    ctx.refmap[path] = fn()
                except Exception as e:      # noqa
                    raise Violation(
                        'poison_after_fault',
                        f'after an injected {failed} the next {k} to the '
                        f'same path failed: {type(e).__name__}: {e}',
                        quantity=op.get('fmt', op.get('dfmt')), op=k)
        ctx.event(k, {'path': os.path.basename(path),
                      'failed': bool(failed)})

    def _verify_all(self, ctx, opk):
        import emg3d
        for path in sorted(ctx.refmap):
            want = ctx.refmap[path]
            if want == UNKNOWN:
                continue
            fmt = path.rsplit('.')[-1]
            with iofault.installed(ctx.io), warnings.catch_warnings(
                    record=True) as wl:
                warnings.simplefilter('always')
                try:
                    got = emg3d.load(path, verb=0)
                except OSError as e:
                    if '[injected]' in str(e):
                        ctx.stats.probe('failed_read')
                        continue
                    raise Violation('roundtrip',
                                    f'load({os.path.basename(path)}) raised '
                                    f'{type(e).__name__}: {e}',
                                    quantity=fmt, op=opk)
                except Exception as e:      # noqa
                    raise Violation('roundtrip',
                                    f'load({os.path.basename(path)}) raised '
                                    f'{type(e).__name__}: {e}',
                                    quantity=fmt, op=opk)
            for w in wl:
                if 'Could not de-serialize <aforeign>' in str(w.message):
                    ctx.stats.probe('foreign_entry_skipped')
                    continue       # expected: stays a dictionary
                if 'Could not de-serialize' in str(w.message):
                    raise Violation(
                        'roundtrip',
                        f'load({os.path.basename(path)}): {w.message}',
                        quantity=fmt, op=opk)
            for name, s in want.items():
                if name not in got and hollow(s):
                    raise Violation(
                        'convert' if opk == 'convert' else 'roundtrip',
                        f'{os.path.basename(path)}: EMPTY-DICT-DROPPED: '
                        f'{name!r} is missing after load',
                        quantity=f'emptydict/{fmt}', op=opk)
                if name not in got:
                    raise Violation('roundtrip',
                                    f'{os.path.basename(path)}: {name!r} is '
                                    f'missing after load', quantity=fmt,
                                    op=opk)
                d = diff(s, struct(got[name]), name)
                if d:
                    cls = 'date' if name == '_date' else (
                        'convert' if opk == 'convert' else 'roundtrip')
                    q = 'emptydict' if 'EMPTY-DICT-DROPPED' in d else \
                        _kind(s)
                    raise Violation(
                        cls, f'{os.path.basename(path)} (saved vs loaded) '
                        f'{d}', quantity=f'{q}/{fmt}', op=opk)
                ctx.stats.feature(_kind(s), fmt)
            extra = set(got) - set(want) - {'_version', '_format'}
            if extra:
                raise Violation('roundtrip',
                                f'{os.path.basename(path)}: unexpected keys '
                                f'{sorted(extra)}', quantity=fmt, op=opk)
            ctx.stats.probe('loads_compared')


def _cls(o):
    return type(o).__name__


def _kind(s):
    return s[1] if s[0] == 'obj' else s[0]
