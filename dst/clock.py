"""Virtual clock and the four clock seams of emg3d.

Seams (all module-level names looked up at call time):
  emg3d.utils.perf_counter, emg3d.utils.datetime, emg3d.io.datetime,
  emg3d.cli.run.time
"""
import contextlib
import datetime as _dt


class VirtualClock:
    EPOCH = _dt.datetime(2030, 1, 1, 0, 0, 0)
    TICK = 0.001      # every read of the performance counter costs 1 ms

    def __init__(self):
        self.now = 0.0
        self.reads = 0
        self.total = 0.0    # simulated time covered (jumps excluded)

    def advance(self, dt):
        self.now += dt
        if dt > 0:
            self.total += dt

    def jump(self, dt):
        """A clock jump (fault): moves `now`, not counted as covered time."""
        self.now += dt

    def perf_counter(self):
        self.reads += 1
        self.advance(self.TICK)
        return self.now

    def datetime_now(self):
        self.reads += 1
        return self.EPOCH + _dt.timedelta(seconds=round(self.now, 6))


def _fake_datetime(clock):
    class FakeDatetime(_dt.datetime):
        @classmethod
        def now(cls, tz=None):
            return clock.datetime_now()

        @classmethod
        def today(cls):
            return clock.datetime_now()
    return FakeDatetime


class _FakeTimeModule:
    def __init__(self, clock):
        self._c = clock

    def asctime(self, *a):
        return self._c.datetime_now().strftime('%a %b %d %H:%M:%S %Y')

    def time(self):
        return self._c.perf_counter()

    def perf_counter(self):
        return self._c.perf_counter()

    def sleep(self, s):
        self._c.advance(s)


@contextlib.contextmanager
def installed(clock, stats=None):
    import emg3d.utils
    import emg3d.io
    import emg3d.cli.run
    fdt = _fake_datetime(clock)
    saved = (emg3d.utils.perf_counter, emg3d.utils.datetime,
             emg3d.io.datetime, emg3d.cli.run.time)
    emg3d.utils.perf_counter = clock.perf_counter
    emg3d.utils.datetime = fdt
    emg3d.io.datetime = fdt
    emg3d.cli.run.time = _FakeTimeModule(clock)
    try:
        yield
    finally:
        (emg3d.utils.perf_counter, emg3d.utils.datetime,
         emg3d.io.datetime, emg3d.cli.run.time) = saved
        if stats is not None:
            stats.seam('clock', clock.reads)
