"""C05 — grid hierarchy and V/W/F cycling are well-formed.

The multigrid *control plane* (MGParameters, multigrid() recursion, smoothing
dispatch, per-level direction adaptation, restriction, prolongation,
_terminate) runs for real; the *data plane* is simulated: the four
Gauss-Seidel kernels are recording no-ops and the fine-grid residual norm is
read from a script chosen by the simulator (geometric decay reaching the
tolerance at a drawn cycle, plateau, growth, NaN, never converging).  With a
Krylov solver a stub driver stands in for SciPy and calls the multigrid
pre-conditioner a drawn number of times.  The recorded visit history must
refine a small executable reference model written from the documentation.
A second stratum runs everything for real on small shapes against the same
reference model.
"""
import copy
import math

import numpy as np

from dst import clock as vclock
from dst.engine import Violation
from dst.machine import Machine, quiet

LR_DIRS = {0: '', 1: 'x', 2: 'y', 3: 'z', 4: 'yz', 5: 'xz', 6: 'xy',
           7: 'xyz'}


# ======================================================================
# Reference model (checker side; from the documentation of `solve`)
# ======================================================================
def digits(v, default):
    """Pattern of a semicoarsening / linerelaxation argument."""
    if v is True:
        return list(default)
    if v is False:
        return [0]
    return [int(c) for c in str(abs(int(v)))]


def halvings(n, cap):
    """How often n can be halved while it is even and larger than two."""
    k = 0
    while n % 2 == 0 and n > 2 and (cap < 0 or k < cap):
        n //= 2
        k += 1
    return k


class Ref:
    def __init__(self, shape, cycle, sc, lr, clevel, nu):
        self.shape = tuple(shape)
        self.cycle = cycle
        self.sc = digits(sc, (1, 2, 3))
        self.lr = digits(lr, (4, 5, 6))
        self.clevel = clevel
        self.nu = nu      # dict init, pre, coarse, post
        self.cl = [halvings(n, clevel) for n in shape]
        self.maxcycle = max(len(self.sc), len(self.lr))

    def bottom(self, s):
        """Coarsest level for semicoarsening digit s (0: all directions)."""
        return max(self.cl[d] for d in range(3) if d != s - 1)

    def coarse(self, shape, s):
        return tuple(n // 2 if (d != s - 1 and n % 2 == 0 and n > 2) else n
                     for d, n in enumerate(shape))

    def header(self):
        return (tuple(n // 2 ** c for n, c in zip(self.shape, self.cl)),
                tuple(self.cl))

    def kernels(self, shape, k):
        eff = [d for d in LR_DIRS[k] if shape['xyz'.index(d)] > 2]
        return tuple('gs_' + d for d in eff) if eff else ('gs',)

    def gs(self, shape, k, nu):
        return [('gs', kern, shape, nu) for kern in self.kernels(shape, k)]

    # -- one visit of a level > 0 ---------------------------------------
    def call(self, l, shape, s, k, L, new_cycmax):
        if l == L:
            cycmax = 1
        elif self.cycle == 'W':
            cycmax = 2
        elif self.cycle == 'V':
            cycmax = 1
        else:
            cycmax = new_cycmax
        ev = [('enter', l, shape)]
        for cyc in range(cycmax):
            ev += self.iteration(l, shape, s, k, L, cycmax - cyc)
        ev.append(('exit', l))
        return ev

    def iteration(self, l, shape, s, k, L, child_cycmax):
        if l == L:
            return self.gs(shape, k, self.nu['coarse'])
        ev = []
        if self.nu['pre'] > 0:
            ev += self.gs(shape, k, self.nu['pre'])
        cs = self.coarse(shape, s)
        ev.append(('restrict', shape, cs))
        ev += self.call(l + 1, cs, s, k, L, child_cycmax)
        ev.append(('prolong', cs, shape))
        if self.nu['post'] > 0:
            ev += self.gs(shape, k, self.nu['post'])
        return ev

    def invocation(self, g0, ncycles):
        """One call of multigrid() on the fine grid running `ncycles`."""
        ev = [('enter', 0, self.shape)]
        if self.nu['init'] > 0:
            ev += self.gs(self.shape, self.lr[g0 % len(self.lr)],
                          self.nu['init'])
        top = 2 if self.cycle in 'FW' else 1
        for j in range(ncycles):
            g = g0 + j
            s = self.sc[g % len(self.sc)]
            k = self.lr[g % len(self.lr)]
            ev += self.iteration(0, self.shape, s, k, self.bottom(s), top)
            ev.append(('cycle_end', s, k))
        ev.append(('exit', 0))
        return ev

    def levels(self, events):
        """The QC level list: level on entry, level after prolongation."""
        out, stack = [], []
        for e in events:
            if e[0] == 'enter':
                stack.append(e[1])
                out.append(e[1])
            elif e[0] == 'exit':
                stack.pop()
            elif e[0] == 'prolong':
                out.append(stack[-1])
        return out


def script_values(script, n):
    """Scripted fine-grid residual norms, relative to ||s|| = 1."""
    kind = script['kind']
    out = [1.0]
    for i in range(1, n + 1):
        if kind == 'decay':
            out.append(script['rate'] ** i)
        elif kind == 'slow':
            out.append(0.9999 ** i)
        elif kind == 'plateau':
            out.append(0.5)
        elif kind == 'growth':
            out.append(20.0 ** min(i, 100))
        elif kind == 'nan':
            out.append(float('nan') if i >= script['at'] else 0.9 ** i)
    return out


def expected_end(script, tol, maxit, m=1):
    """(number of fine cycles, verdict) for stand-alone multigrid; `m` is
    the length of the direction pattern: stagnation compares with the last
    value of the same cycle type, i.e. m cycles back."""
    vals = script_values(script, maxit + 2)
    for it in range(1, maxit + 1):
        v = vals[it]
        if v < tol:
            return it, 'CONVERGED'
        if not math.isfinite(v) or v > 10:
            return it, 'DIVERGED'
        if script['kind'] == 'plateau' and it > 2 and it > m:
            return it, 'STAGNATED'
        if it == maxit:
            return it, 'MAX.'
    return maxit, 'MAX.'


# ======================================================================
# Machine
# ======================================================================
class C05(Machine):
    chunk = 16      # runs per forked process (see runner._child)
    pid = 'C05'
    rule = ("one run = (shape, cycle, semicoarsening pattern, line-relaxation "
            "pattern, clevel, smoothing counts, maxit, stand-alone or Krylov-"
            "driven, residual script); stratum A: real control plane, stub "
            "kernels, scripted fine-grid norms; stratum B: everything real on "
            "small shapes; non-trivial = >=2 levels visited and >=2 fine "
            "cycles; distinct = distinct (shape, settings, script) trace "
            "digest")
    components_real = ['emg3d.solver.MGParameters', 'emg3d.solver.multigrid',
                       'emg3d.solver.smoothing (dispatch)',
                       '_current_sc_dir/_current_lr_dir',
                       'emg3d.solver.restriction/prolongation/residual',
                       '_terminate', 'emg3d.solver.krylov']
    components_stub = ['core.gauss_seidel, _x, _y, _z (recording no-ops; '
                       'stratum A)', 'fine-grid residual norm (scripted; '
                       'stratum A)', 'SciPy Krylov solver -> stub driver '
                       'calling M.matvec k times (stratum A)',
                       'wall clock -> VirtualClock']
    assumptions = ['the reference model (V/W/F order, halving rule, direction '
                   'cycling) is written from the docstring of emg3d.solve',
                   'this is a sequential control-plane simulation, not thread '
                   'scheduling']
    required_seams = ['clock', 'gs_stub']

    def plan(self, tier):
        if tier == 'quick':
            return {'runs': 4000, 'budget_s': 600, 'det_runs': 3,
                    'run_timeout': 120, 'shrink_s': 60}
        return {'runs': 300000, 'budget_s': 3000, 'det_runs': 5,
                'run_timeout': 200, 'shrink_s': 100}

    # ---------------------------------------------------------------- gen
    def _n(self, rng, hi=40):
        r = rng.random()
        if r < 0.55:
            n = rng.choice([1, 3, 5, 7]) * 2 ** rng.randint(1, 5)
            n += rng.choice([0, 0, 0, 0, -1, 1, 2, -2])
        else:
            n = rng.randint(2, hi)
        return max(2, min(hi, n))

    def gen(self, rng, tier, index):
        real = rng.random() < 0.12
        if real:
            shape = [self._n(rng, 12) for _ in range(3)]
        elif rng.random() < 0.08:
            shape = [rng.randint(2, 4) for _ in range(3)]
            big = rng.choice([1, 3, 5, 7]) * 2 ** rng.randint(1, 10) + \
                rng.choice([0, 0, 0, 1, 2])
            shape[rng.randrange(3)] = max(2, min(1024, big))
        else:
            shape = [self._n(rng) for _ in range(3)]
        sc = rng.choice([0, 1, 2, 3, True, True, 12, 23, 13, 1213, 302, 3021,
                         10203, 22, 123])
        lr = rng.choice([0, 1, 2, 3, 4, 5, 6, 7, True, True, 46, 1213, 570,
                         77, 4567, 12345, 6040])
        cfg = {
            'shape': shape, 'real': real,
            'cycle': rng.choice(['V', 'W', 'F', 'F']),
            'semicoarsening': sc, 'linerelaxation': lr,
            'clevel': rng.choice([-1, -1, -1, 0, 1, 2, 3, 5]),
            'nu': {'init': rng.choice([0, 0, 1, 2]),
                   'pre': rng.choice([0, 1, 2, 2, 3]),
                   'coarse': rng.choice([0, 1, 1, 2]),
                   'post': rng.choice([0, 1, 2, 2, 3])},
            'maxit': rng.randint(1, 12),
            'tol': rng.choice([1e-3, 1e-6, 1e-9]),
            'verb': rng.choice([0, 4, 4]) if not real else
            rng.choice([0, 4, 5]),
            'sslsolver': rng.choice([False, False, False, 'bicgstab',
                                     'gcrotmk', 'cgs']),
            'kcalls': rng.randint(1, 5),
            'cb_first': rng.random() < 0.5,
            'repeat': rng.choice([1, 1, 2, 2, 3]),
        }
        if cfg['nu']['pre'] + cfg['nu']['post'] + cfg['nu']['coarse'] == 0:
            cfg['nu']['post'] = 1
        kind = rng.choice(['decay', 'decay', 'slow', 'plateau', 'growth',
                           'nan'])
        cfg['script'] = {'kind': kind,
                         'rate': rng.choice([0.5, 0.1, 0.01, 1e-3]),
                         'at': rng.randint(1, 6)}
        if cfg['sslsolver']:
            cfg['script'] = {'kind': 'slow', 'rate': 0.5, 'at': 1}
        return {'config': cfg, 'ops': []}

    def simplify(self, case):
        c = case['config']
        out = []

        def var(**kw):
            n = copy.deepcopy(case)
            n['config'].update(kw)
            return n
        for k, v in (('linerelaxation', 0), ('semicoarsening', 0),
                     ('clevel', -1), ('sslsolver', False), ('verb', 0),
                     ('cycle', 'V')):
            if c[k] != v:
                out.append(var(**{k: v}))
        if c['nu'] != {'init': 0, 'pre': 2, 'coarse': 1, 'post': 2}:
            out.append(var(nu={'init': 0, 'pre': 2, 'coarse': 1, 'post': 2}))
        for d in range(3):
            if c['shape'][d] > 2:
                for cand in (c['shape'][d] // 2, c['shape'][d] - 2):
                    if cand >= 2:
                        s = list(c['shape'])
                        s[d] = cand
                        out.append(var(shape=s))
        if c['maxit'] > 1:
            out.append(var(maxit=c['maxit'] - 1))
        if c.get('repeat', 1) > 1:
            out.append(var(repeat=c['repeat'] - 1))
        return out

    # ---------------------------------------------------------------- run
    def run(self, ctx, case):
        """A run is a short history of identical solver calls in one
        process: every call must start its direction patterns at the first
        digit, whatever ran before (no state may survive a call)."""
        for rep in range(case['config'].get('repeat', 1)):
            ctx.opi = rep
            self._solve_once(ctx, case)

    def _solve_once(self, ctx, case):
        import emg3d
        import emg3d.solver as S
        import emg3d.core as core
        import scipy.sparse.linalg as ssl
        cfg = case['config']
        shape = tuple(cfg['shape'])
        real = cfg['real']
        rec = []          # recorded history
        saved = {}

        def lshape(hx, hy, hz):
            return (len(hx), len(hy), len(hz))

        # -- recorders ------------------------------------------------------
        def mk_kernel(name, realfn):
            def kernel(ex, ey, ez, sx, sy, sz, etx, ety, etz, zeta, hx, hy,
                       hz, nu):
                rec.append(('gs', name, lshape(hx, hy, hz), int(nu)))
                ctx.stats.seam('gs_stub')
                if real:
                    realfn(ex, ey, ez, sx, sy, sz, etx, ety, etz, zeta, hx,
                           hy, hz, nu)
            return kernel
        for name, attr in (('gs', 'gauss_seidel'), ('gs_x', 'gauss_seidel_x'),
                           ('gs_y', 'gauss_seidel_y'),
                           ('gs_z', 'gauss_seidel_z')):
            saved[attr] = getattr(core, attr)
            setattr(core, attr, mk_kernel(name, saved[attr]))

        real_mg, real_res = S.multigrid, S.residual
        real_restr, real_prol = S.restriction, S.prolongation
        real_pci = S._print_cycle_info
        state = {'var': None, 'norm_calls': 0}

        def print_cycle_info(var, l2_last, l2_prev):
            # called once at the end of every fine-grid cycle, before the
            # direction digits advance
            rec.append(('cycle_end', int(var.sc_dir), int(var.lr_dir)))
            return real_pci(var, l2_last, l2_prev)
        vals = script_values(cfg['script'], 400)

        def multigrid(model, sfield, efield, var, **kw):
            level = kw.get('level', 0)
            state['var'] = var
            rec.append(('enter', level, tuple(model.grid.shape_cells)))
            if min(model.grid.shape_cells) < 2:
                # stop before a compiled kernel indexes out of bounds
                raise Violation('level_too_small',
                                f'level {level} has shape '
                                f'{tuple(model.grid.shape_cells)}',
                                quantity='shape', op='solve')
            ctx.steps += 1
            if ctx.steps > 200000:
                raise Violation('nontermination', 'step cap reached',
                                quantity='steps', op='solve')
            try:
                return real_mg(model, sfield, efield, var, **kw)
            finally:
                rec.append(('exit', level))

        def residual(model, sfield, efield, norm=False):
            if norm and not real and \
                    tuple(model.grid.shape_cells) == shape:
                i = state['norm_calls']
                state['norm_calls'] += 1
                return vals[min(i, len(vals) - 1)]
            return real_res(model, sfield, efield, norm)

        def restriction(model, sfield, res, sc_dir):
            out = real_restr(model, sfield, res, sc_dir)
            rec.append(('restrict', tuple(model.grid.shape_cells),
                        tuple(out[0].grid.shape_cells)))
            return out

        def prolongation(efield, cefield, sc_dir):
            real_prol(efield, cefield, sc_dir)
            rec.append(('prolong', tuple(cefield.grid.shape_cells),
                        tuple(efield.grid.shape_cells)))

        S.multigrid, S.residual = multigrid, residual
        S.restriction, S.prolongation = restriction, prolongation
        S._print_cycle_info = print_cycle_info

        # -- stub Krylov driver (stratum A only) -------------------------
        kstate = {'calls': 0}

        def driver(A, b, x0=None, **kw):
            M, cb = kw.get('M'), kw.get('callback')
            x = np.array(x0, copy=True)
            for j in range(cfg['kcalls']):
                if cfg['cb_first'] and cb is not None:
                    cb(x)
                if M is not None:
                    M.matvec(b)
                    kstate['calls'] += 1
                if not cfg['cb_first'] and cb is not None:
                    cb(x)
            return x, 1
        if cfg['sslsolver'] and not real:
            for name in ('bicgstab', 'cgs', 'gcrotmk'):
                saved['ssl_' + name] = getattr(ssl, name)
                setattr(ssl, name, driver)

        # -- the run ------------------------------------------------------
        hx = [np.ones(n) * 10.0 for n in shape]
        grid = emg3d.TensorMesh(hx, origin=(0, 0, 0))
        model = emg3d.Model(grid, 1.0)
        sf = emg3d.Field(grid, frequency=1.0)
        sf.fx[0, min(1, shape[1] - 1), min(1, shape[2] - 1)] = 1.0
        kw = dict(sslsolver=cfg['sslsolver'], cycle=cfg['cycle'],
                  semicoarsening=cfg['semicoarsening'],
                  linerelaxation=cfg['linerelaxation'], clevel=cfg['clevel'],
                  nu_init=cfg['nu']['init'], nu_pre=cfg['nu']['pre'],
                  nu_coarse=cfg['nu']['coarse'], nu_post=cfg['nu']['post'],
                  maxit=cfg['maxit'], tol=cfg['tol'], verb=cfg['verb'],
                  return_info=True, log=-1)
        err = None
        try:
            with vclock.installed(ctx.clock, ctx.stats), quiet():
                _, info = emg3d.solve(model, sf, **kw)
        except Violation:
            raise
        except Exception as e:      # noqa
            err = e
        finally:
            S.multigrid, S.residual = real_mg, real_res
            S.restriction, S.prolongation = real_restr, real_prol
            S._print_cycle_info = real_pci
            for attr, fn in saved.items():
                if attr.startswith('ssl_'):
                    setattr(ssl, attr[4:], fn)
                else:
                    setattr(core, attr, fn)
        if err is not None:
            raise Violation('nontermination',
                            f'solve raised {type(err).__name__}: {err} for '
                            f'shape {shape}', quantity='exception',
                            op='solve')
        self._verify(ctx, cfg, rec, state, kstate, info)

    # ---------------------------------------------------------------- check
    def _verify(self, ctx, cfg, rec, state, kstate, info):
        shape = tuple(cfg['shape'])
        ref = Ref(shape, cfg['cycle'], cfg['semicoarsening'],
                  cfg['linerelaxation'], cfg['clevel'], cfg['nu'])
        var = state['var']
        # split the record into fine-grid invocations
        inv, cur, depth = [], None, 0
        for e in rec:
            if e[0] == 'enter' and e[1] == 0:
                cur = []
                inv.append(cur)
            cur.append(e)
        ncyc = [sum(1 for e in r if e[0] == 'cycle_end') for r in inv]
        total = sum(ncyc)
        # -- generic safety on everything recorded -------------------------
        for e in rec:
            if e[0] == 'enter' and min(e[2]) < 2:
                raise Violation('level_too_small',
                                f'level {e[1]} has shape {e[2]}',
                                quantity='shape', op='solve')
            if e[0] == 'restrict':
                for d, (a, b) in enumerate(zip(e[1], e[2])):
                    if b != a and not (a % 2 == 0 and a > 2 and b == a // 2):
                        raise Violation(
                            'bad_halving',
                            f'{e[1]} -> {e[2]}: direction {"xyz"[d]} with '
                            f'{a} cells was coarsened', quantity='shape',
                            op='solve')
            if e[0] == 'gs' and e[1] != 'gs':
                d = 'xyz'.index(e[1][-1])
                if e[2][d] <= 2:
                    raise Violation(
                        'line_relax_two_cells',
                        f'{e[1]} applied on a level of shape {e[2]}',
                        quantity='kernel', op='solve')
        # -- header ------------------------------------------------------------
        got = (tuple(int(v) for v in var._repr_clevel['shape_cells']),
               tuple(int(v) for v in var._repr_clevel['clevel']))
        if got != ref.header():
            raise Violation('header_mismatch',
                            f'header announces coarsest grid/level {got}, '
                            f'reference {ref.header()}', quantity='header',
                            op='solve')
        # -- termination (bounded liveness) ------------------------------------
        if not cfg['sslsolver']:
            if total > cfg['maxit'] or int(info['it_mg']) != total:
                raise Violation(
                    'iteration_count',
                    f'{total} fine-grid cycles were run, it_mg='
                    f"{info['it_mg']}, maxit={cfg['maxit']}",
                    quantity='it', op='solve')
            if not cfg['real']:
                want_n, want_v = expected_end(cfg['script'], cfg['tol'],
                                              cfg['maxit'], ref.maxcycle)
                msg = info['exit_message']
                if total != want_n or not msg.startswith(want_v):
                    raise Violation(
                        'verdict',
                        f'scripted residuals {cfg["script"]} imply '
                        f'{want_v} after {want_n} cycles, got {msg!r} after '
                        f'{total}', quantity='verdict', op='solve')
        else:
            if int(info['it_mg']) != total:
                raise Violation('iteration_count',
                                f"it_mg={info['it_mg']} but {total} fine-grid"
                                f' cycles were run', quantity='it',
                                op='solve')
            if not cfg['real']:
                want = cfg['kcalls'] * ref.maxcycle
                if total != want or len(inv) != cfg['kcalls']:
                    raise Violation(
                        'iteration_count',
                        f'{cfg["kcalls"]} pre-conditioner calls with a '
                        f'pattern of length {ref.maxcycle} must run {want} '
                        f'fine-grid cycles, ran {total} in {len(inv)} calls',
                        quantity='it', op='solve')
        # -- refinement: recorded history == reference history -----------------
        g = 0
        for r, n in zip(inv, ncyc):
            want = ref.invocation(g, n)
            g += n
            self._compare(ref, list(r), want)
        # QC level list of the first cycle
        if cfg['verb'] > 3 and inv and ncyc[0] > 0:
            first = ref.invocation(0, 1)
            want_levels = ref.levels([e for e in first])
            got_levels = [int(v) for v in var.level_all]
            if got_levels != want_levels:
                raise Violation('cycle_order',
                                f'QC level list {got_levels} != reference '
                                f'{want_levels}', quantity='level_all',
                                op='solve')
            ctx.stats.probe('qc_levels_checked')
        nlev = len({e[1] for e in rec if e[0] == 'enter'})
        ctx.nontrivial = bool(getattr(ctx, 'nontrivial', False)) or (
            nlev >= 2 and total >= 2)
        ctx.stats.probe('verdict/' + info['exit_message'].split(' ')[0])
        ctx.stats.feature(_cls(shape), cfg['cycle'], cfg['semicoarsening'],
                          cfg['linerelaxation'], cfg['clevel'],
                          info['exit_message'][:4])
        ctx.event('solve', {'shape': list(shape), 'cycles': total,
                            'levels': nlev, 'msg': info['exit_message'],
                            'n': len(rec)})

    def _compare(self, ref, got, want):
        for i, (a, b) in enumerate(zip(got, want)):
            if a != b:
                cls = 'cycle_order'
                if a[0] == b[0] == 'cycle_end':
                    cls = 'direction_cycling'
                elif a[0] == b[0] == 'gs':
                    cls = 'direction_cycling' if a[1] != b[1] else \
                        'cycle_order'
                elif a[0] == b[0] == 'enter' and a[1] == b[1]:
                    cls = 'bad_halving'
                elif a[0] == b[0] == 'restrict':
                    cls = 'bad_halving'
                elif (a[0] == 'gs') != (b[0] == 'gs') and \
                        'restrict' in (a[0], b[0]):
                    cls = 'wrong_bottom'
                raise Violation(
                    cls, f'event {i}: recorded {a}, reference {b} '
                    f'(before: {got[max(0, i - 3):i]})', quantity=b[0],
                    op='solve')
        if len(got) != len(want):
            raise Violation('cycle_order',
                            f'{len(got)} events recorded, reference has '
                            f'{len(want)} (next: '
                            f'{(got + want)[min(len(got), len(want))]})',
                            quantity='length', op='solve')


def _cls(shape):
    def c(n):
        k = 0
        while n % 2 == 0 and n > 2:
            n //= 2
            k += 1
        return f'{min(n, 9)}.{k}'
    return '-'.join(c(n) for n in shape)
