"""Fault layer in front of the file libraries emg3d writes through.

Pass-through wrappers (the real h5py / numpy / json code runs on a real
scratch directory) that can fail, on request of the simulator, with ENOSPC /
EIO before a write, in the middle of it (after k datasets: leaves a *valid but
incomplete* HDF5 file; or torn: truncated file), at close, or on
open-for-read.  Library-level seams, so they are independent of how emg3d
organises its own I/O helpers:

  h5py.File, h5py.Group.create_dataset, numpy.savez_compressed, numpy.load,
  and a module-global `open` injected into emg3d.io.
"""
import builtins
import contextlib
import errno
import os

import numpy as np
import h5py

from dst.simpool import WorkerDied

_real_File = h5py.File
_real_create_dataset = h5py.Group.create_dataset
_real_savez = np.savez_compressed
_real_npload = np.load
_real_open = builtins.open

ERR = {'enospc': (errno.ENOSPC, 'No space left on device'),
       'eio': (errno.EIO, 'Input/output error')}


def _oserror(kind, path):
    no, msg = ERR[kind]
    return OSError(no, f'[injected] {msg}', path)


class IOSim:
    def __init__(self, ctx, poolsim=None):
        self.ctx = ctx
        self.pool = poolsim
        self.armed = []          # file faults armed for the current op
        self.death = None        # worker-death request (point, k)
        self.torn = []           # files to truncate when the worker is gone
        self.cur_write = {}      # id(h5 file) -> [path, n datasets]
        self.log = []            # (who, event, basename) of this op

    # -- arming -----------------------------------------------------------
    def new_op(self, faults=()):
        self.armed = [dict(f) for f in faults]
        self.log = []

    def arm_worker_death(self, point, k):
        self.death = (point, k)

    def disarm_worker_death(self):
        self.death = None
        for p in self.torn:
            try:
                sz = os.path.getsize(p)
                with _real_open(p, 'r+b') as f:
                    f.truncate(max(1, sz // 2))
            except OSError:
                pass
        self.torn = []

    # -- matching ---------------------------------------------------------
    def _who(self):
        if self.pool is not None and self.pool.in_worker is not None:
            return 'worker'
        return 'parent'

    def _check(self, event, path, k=None):
        who = self._who()
        base = os.path.basename(str(path))
        self.log.append((who, event, base))
        self.ctx.stats.seam('io/' + event)
        # worker death
        if self.death and who == 'worker' and event in ('open_w', 'dataset'):
            point, dk = self.death
            if point == 'before_save' and event == 'open_w':
                self.death = None
                raise WorkerDied()
            if point in ('mid_save', 'torn_save') and event == 'dataset' \
                    and k is not None and k >= dk:
                if point == 'torn_save':
                    self.torn.append(str(path))
                self.death = None
                raise WorkerDied()
        mode = {'open_r': 'r'}.get(event, 'w')
        for f in self.armed:
            if f.get('fired'):
                continue
            if f.get('who', 'any') not in ('any', who):
                continue
            if f.get('match', '') not in base:
                continue
            fmode = 'r' if f['event'] == 'open_r' else 'w'
            if fmode != mode:
                continue
            # which matching file (counted at its open) the fault is for
            if event in ('open_r', 'open_w'):
                f['seen'] = f.get('seen', 0) + 1
                if f['seen'] - 1 == f.get('nth', 0):
                    f['target'] = str(path)
            if f.get('target') != str(path) or f['event'] != event:
                continue
            if event == 'dataset' and k != f.get('k', 1):
                continue
            f['fired'] = True
            self.ctx.stats.fault(f"io/{f['kind']}/{event}/{who}")
            raise _oserror(f['kind'], str(path))

    # -- wrappers ---------------------------------------------------------
    def make_file_class(self):
        io = self

        class FaultyFile(_real_File):
            def __init__(self, name, mode='r', *a, **kw):
                self._dst_path = None
                if isinstance(name, (str, bytes, os.PathLike)):
                    ev = 'open_r' if mode == 'r' else 'open_w'
                    io._check(ev, name)
                    super().__init__(name, mode, *a, **kw)
                    if ev == 'open_w':
                        self._dst_path = str(name)
                        io.cur_write[os.path.abspath(str(name))] = [str(name), 0]
                else:
                    super().__init__(name, mode, *a, **kw)

            def close(self):
                path = self._dst_path
                super().close()
                if path is not None:
                    self._dst_path = None
                    io.cur_write.pop(os.path.abspath(path), None)
                    io._check('close_w', path)

        return FaultyFile

    def create_dataset(self, group, name, *a, **kw):
        try:
            fid = os.path.abspath(group.file.filename)
        except Exception:      # noqa
            fid = None
        rec = self.cur_write.get(fid)
        if rec is not None:
            rec[1] += 1
            self._check('dataset', rec[0], k=rec[1])
        return _real_create_dataset(group, name, *a, **kw)

    def savez(self, file, *a, **kw):
        self._check('open_w', file)
        out = _real_savez(file, *a, **kw)
        try:
            self._check('dataset', file, k=1)
        except OSError:
            # torn write: half of the archive reached the disk
            p = str(file)
            sz = os.path.getsize(p)
            with _real_open(p, 'r+b') as f:
                f.truncate(max(1, sz // 2))
            raise
        self._check('close_w', file)
        return out

    def npload(self, file, *a, **kw):
        if isinstance(file, (str, os.PathLike)):
            self._check('open_r', file)
        return _real_npload(file, *a, **kw)

    def open(self, file, mode='r', *a, **kw):
        ev = 'open_w' if ('w' in mode or 'a' in mode) else 'open_r'
        self._check(ev, file)
        f = _real_open(file, mode, *a, **kw)
        if ev == 'open_w':
            return _FaultyTextFile(self, f, str(file))
        return f


class _FaultyTextFile:
    """Text file whose k-th write can fail (partial JSON stays on disk)."""

    def __init__(self, io, f, path):
        self._io, self._f, self._path, self._n = io, f, path, 0

    def write(self, s):
        self._n += 1
        # json.dump writes many small chunks; every 50th counts as a step
        if self._n % 50 == 0:
            try:
                self._io._check('dataset', self._path, k=self._n // 50)
            except OSError:
                self._f.flush()
                raise
        return self._f.write(s)

    def __enter__(self):
        return self

    def __exit__(self, *exc):
        self.close()
        return False

    def close(self):
        if not self._f.closed:
            self._f.close()
            if self._io is not None:
                io, self._io = self._io, None
                io._check('close_w', self._path)

    def __getattr__(self, name):
        return getattr(self._f, name)


@contextlib.contextmanager
def installed(io):
    import emg3d.io
    cls = io.make_file_class()
    h5py.File = cls

    def _cd(group, name, *a, **kw):
        return io.create_dataset(group, name, *a, **kw)
    h5py.Group.create_dataset = _cd
    np.savez_compressed = io.savez
    np.load = io.npload
    emg3d.io.open = io.open
    try:
        yield io
    finally:
        h5py.File = _real_File
        h5py.Group.create_dataset = _real_create_dataset
        np.savez_compressed = _real_savez
        np.load = _real_npload
        if 'open' in emg3d.io.__dict__:
            del emg3d.io.open
