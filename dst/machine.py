"""Base class of the per-property machines."""
import contextlib
import io
import os
import warnings


class Machine:
    pid = None
    rule = ''
    components_real = []
    components_stub = []
    assumptions = []
    required_seams = []

    def stream(self, tier):
        """Seed stream name; quick and thorough explore different runs."""
        return tier

    def plan(self, tier):
        raise NotImplementedError

    def gen(self, rng, tier, index):
        raise NotImplementedError

    def run(self, ctx, case):
        raise NotImplementedError

    def simplify(self, case):
        return []

    def warmup(self):
        """Import emg3d and compile the numba kernels once, before forking."""
        import numpy as np
        import emg3d
        warnings.filterwarnings('ignore')
        try:      # no tqdm monitor threads (see runner._fresh_tqdm_locks)
            import tqdm.std
            tqdm.std.tqdm.monitor_interval = 0
        except ImportError:
            pass
        grid = emg3d.TensorMesh([np.ones(4) * 100] * 3, origin=(0, 0, 0))
        model = emg3d.Model(grid, 1.0)
        src = emg3d.TxElectricDipole((150, 250, 150, 250, 150, 250))
        for kw in ({}, {'linerelaxation': True, 'semicoarsening': True},
                   {'sslsolver': 'bicgstab'}):
            emg3d.solve_source(model, src, 1.0, verb=0, maxit=2, **kw)
        sf = emg3d.get_source_field(grid, src, -1.0)
        emg3d.solve(model, sf, verb=0, maxit=2, linerelaxation=True)
        # the remaining jitted paths (volume averaging between grids,
        # edges-to-volume averaging, all coarsening patterns, triaxial
        # models), complex and real, so that the forked runs find every
        # kernel compiled
        grid2 = emg3d.TensorMesh([np.ones(6) * 100, np.ones(4) * 150,
                                  np.ones(8) * 75], origin=(0, 0, 0))
        model3 = emg3d.Model(grid2, 1.0, 2.0, 3.0, mapping='LgResistivity')
        for f in (1.0, -1.0):
            sf = emg3d.get_source_field(grid2, emg3d.TxElectricDipole(
                (250, 350, 250, 350, 250, 350)), f)
            for sc, lr in ((1, 1), (2, 2), (3, 3), (0, 4), (0, 5), (0, 6),
                           (0, 7), (True, True)):
                emg3d.solve(model3, sf, verb=0, maxit=1, sslsolver=False,
                            semicoarsening=sc, linerelaxation=lr)
        try:
            survey = emg3d.Survey(
                emg3d.TxElectricDipole((250, 350, 250, 350, 250, 350)),
                [emg3d.RxElectricPoint((150, 250, 350, 0, 0)),
                 emg3d.RxMagneticPoint((350, 250, 250, 30, 10))], [1.0],
                data=np.ones((1, 2, 1)) * (1 + 1j) * 1e-12,
                noise_floor=1e-15)
            sim = emg3d.Simulation(
                survey, emg3d.Model(grid2, 1.0), gridding='input',
                gridding_opts=emg3d.TensorMesh(
                    [np.ones(4) * 150, np.ones(4) * 150, np.ones(4) * 150],
                    origin=(0, 0, 0)), max_workers=1, tqdm_opts=False,
                receiver_interpolation='linear',
                solver_opts={'maxit': 1, 'plain': True, 'verb': -1})
            sim.compute()
            _ = sim.gradient
            sim.jvec(np.ones(sim.model.shape))
            sim.get_hfield('TxED-1', 'f-1')
        except Exception:      # noqa - the warm-up must never fail a check
            pass


@contextlib.contextmanager
def quiet():
    """Swallow stdout/stderr noise of the code under test (kept in memory)."""
    buf = io.StringIO()
    with contextlib.redirect_stdout(buf), contextlib.redirect_stderr(buf), \
            warnings.catch_warnings():
        warnings.simplefilter('ignore')
        yield buf
