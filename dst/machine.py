"""Base class of the per-property machines."""
import contextlib
import io
import os
import warnings


class Machine:
    pid = None
    rule = ''
    components_real = []
    components_stub = []
    assumptions = []
    required_seams = []

    def stream(self, tier):
        """Seed stream name; quick and thorough explore different runs."""
        return tier

    def plan(self, tier):
        raise NotImplementedError

    def gen(self, rng, tier, index):
        raise NotImplementedError

    def run(self, ctx, case):
        raise NotImplementedError

    def simplify(self, case):
        return []

    def warmup(self):
        """Import emg3d and compile the numba kernels once, before forking."""
        import numpy as np
        import emg3d
        warnings.filterwarnings('ignore')
        grid = emg3d.TensorMesh([np.ones(4) * 100] * 3, origin=(0, 0, 0))
        model = emg3d.Model(grid, 1.0)
        src = emg3d.TxElectricDipole((150, 250, 150, 250, 150, 250))
        for kw in ({}, {'linerelaxation': True, 'semicoarsening': True},
                   {'sslsolver': 'bicgstab'}):
            emg3d.solve_source(model, src, 1.0, verb=0, maxit=2, **kw)
        sf = emg3d.get_source_field(grid, src, -1.0)
        emg3d.solve(model, sf, verb=0, maxit=2, linerelaxation=True)


@contextlib.contextmanager
def quiet():
    """Swallow stdout/stderr noise of the code under test (kept in memory)."""
    buf = io.StringIO()
    with contextlib.redirect_stdout(buf), contextlib.redirect_stderr(buf), \
            warnings.catch_warnings():
        warnings.simplefilter('ignore')
        yield buf
