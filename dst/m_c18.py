"""C18 — the command-line interface is equivalent to the Python API.

A run is a *session*: 1-4 in-process invocations of `emg3d.cli.main.main`
over one scratch directory (survey / model files in a drawn format, a config
file with a drawn subset of the documented keys, overlapping command-line
arguments, forward / misfit / gradient, dry or real, save / load / cache /
--clean, unknown keys and flags, missing files), on the simulated pool, with
virtual clock and seeded RNG.  For each invocation the checker performs the
documented API equivalent and compares what the CLI wrote.
"""
import copy
import logging
import os
import sys
import warnings

import numpy as np

from dst import gen, simpool, iofault, rngseam, clock as vclock
from dst.engine import Violation, ahash
from dst.machine import Machine, quiet
from dst.m_c17 import struct, diff

FMTS = ['h5', 'npz', 'json']

# documented keys (docs/manual/cli.rst) and how the checker writes / reads
# them: (section, key) -> list of (text in the config file, API value)
SOLVER = {
    'sslsolver': [('True', True), ('False', False)],
    'semicoarsening': [('True', True), ('False', False)],
    'linerelaxation': [('True', True), ('False', False)],
    'cycle': [('V', 'V'), ('W', 'W'), ('F', 'F')],
    'tol': [('1e-3', 1e-3), ('0.0001', 1e-4)],
    'tol_gradient': [('1e-2', 1e-2), ('0.001', 1e-3)],
    'verb': [('0', 0), ('1', 1), ('2', 2), ('-1', -1)],
    'maxit': [('1', 1), ('2', 2), ('3', 3)],
    'nu_init': [('0', 0), ('1', 1)],
    'nu_pre': [('1', 1), ('2', 2)],
    'nu_coarse': [('1', 1), ('2', 2)],
    'nu_post': [('1', 1), ('2', 2)],
    'clevel': [('1', 1), ('2', 2), ('-1', -1)],
    'plain': [('True', True), ('False', False)],
}
NOISE = {
    'add_noise': [('True', True), ('False', False)],
    'min_offset': [('0.0', 0.0), ('150', 150.0)],
    'max_offset': [('400.5', 400.5), ('1e9', 1e9), ('inf', np.inf)],
    'mean_noise': [('0.0', 0.0), ('0.5', 0.5)],
    'ntype': [('white_noise', 'white_noise'),
              ('gaussian_correlated', 'gaussian_correlated'),
              ('gaussian_uncorrelated', 'gaussian_uncorrelated')],
}
GRIDDING = {
    'properties': [('0.3, 1, 1e5', [0.3, 1.0, 1e5]), ('1', [1.0])],
    'center': [('0, 0, -500', [0.0, 0.0, -500.0])],
    'cell_number': [('8, 16, 32', [8, 16, 32]), ('16, 32', [16, 32])],
    'min_width_pps': [('3, 3, 3', [3.0, 3.0, 3.0]), ('2, 2, 2', [2.0, 2.0, 2.0])],
    'domain': [('-400, 400; -400, 400; -900, -100',
                {'x': [-400.0, 400.0], 'y': [-400.0, 400.0], 'z': [-900.0, -100.0]}),
               ('-400, 400; None; None',
                {'x': [-400.0, 400.0], 'y': None, 'z': None})],
    'distance': [('None; None; -300, 300',
                  {'x': None, 'y': None, 'z': [-300.0, 300.0]})],
    'stretching': [('1.0, 1.5', [1.0, 1.5]),
                   ('None; None; 1.05, 1.5',
                    {'x': None, 'y': None, 'z': [1.05, 1.5]})],
    'min_width_limits': [('100, 200', [100.0, 200.0]),
                         ('100, 200; None; 150',
                          {'x': [100.0, 200.0], 'y': None, 'z': [150.0]})],
    'mapping': [('Resistivity', 'Resistivity'),
                ('Conductivity', 'Conductivity')],
    'vector': [('xy', 'xy'), ('z', 'z')],
    'frequency': [('1.0', 1.0), ('2.5', 2.5)],
    'seasurface': [('0.0', 0.0)],
    'max_buffer': [('1000.0', 1000.0), ('500', 500.0)],
    'lambda_factor': [('1.0', 1.0), ('0.5', 0.5)],
    'verb': [('0', 0), ('1', 1)],
    'lambda_from_center': [('False', False), ('True', True)],
}
LAYERED = {
    'method': [('cylinder', 'cylinder'), ('prism', 'prism'),
               ('midpoint', 'midpoint'), ('source', 'source'),
               ('receiver', 'receiver')],
    'radius': [('300', 300.0), ('1000.5', 1000.5)],
    'factor': [('1.2', 1.2), ('2', 2.0)],
    'minor': [('0.8', 0.8), ('0.5', 0.5)],
    'merge': [('True', True), ('False', False)],
    'check_foci': [('True', True), ('False', False)],
}
# keeps automatic grids small (16..32 cells per direction)
SMALL_GRID = {'min_width_limits': 0, 'max_buffer': 0, 'domain': 0,
              'stretching': 0}


class C18(Machine):
    pid = 'C18'
    rule = ("one run = a session of 1-4 in-process CLI invocations over one "
            "directory: survey/model files in a drawn format, a config file "
            "with a drawn subset of documented keys (half of the runs: "
            "exactly one optional key, cycling through all keys of all "
            "sections), overlapping command-line arguments, forward/misfit/"
            "gradient, dry or real, save/load/cache/--clean, unknown keys "
            "and flags, missing files; non-trivial = >=2 invocations sharing "
            "a file, or >=3 option sections populated, or a single-key run; "
            "distinct = distinct trace digest")
    components_real = ['emg3d.cli.main/parser/run (in process)',
                       'emg3d.simulations.Simulation', 'emg3d.io',
                       'emg3d.solver', 'emg3d.meshes (automatic gridding)',
                       'empymod (layered)', 'logging']
    components_stub = ['ProcessPoolExecutor -> SimExecutor',
                       'wall clock (time.asctime, Timer, datetime) -> '
                       'VirtualClock', 'numpy.random.default_rng() -> seeded '
                       '(aligned between the CLI run and its API twin)',
                       'sys.argv pinned']
    assumptions = ['the API twin follows docs/manual/cli.rst: each documented '
                   'key is the same-named argument of Simulation / solve / '
                   'construct_mesh / add_noise / Survey.select / extract_1d',
                   'solver info entries that contain clock readings (time, '
                   'runtime_at_cycle, log) are excluded from comparisons']
    required_seams = ['clock']

    def plan(self, tier):
        if tier == 'quick':
            return {'runs': 400, 'budget_s': 900, 'det_runs': 3,
                    'run_timeout': 300, 'shrink_s': 200}
        return {'runs': 12000, 'budget_s': 3000, 'det_runs': 4,
                'run_timeout': 400, 'shrink_s': 300}

    # ---------------------------------------------------------------- gen
    def _pick(self, rng, table, p=0.3, only=None):
        out = {}
        for k, vals in table.items():
            if (only is None and rng.random() < p) or k == only:
                out[k] = rng.randrange(len(vals))
        return out

    def gen(self, rng, tier, index):
        grid = gen.gen_grid(rng, 8, 8)
        for d in 'xyz':
            grid['h' + d] = [100.0] * 8
        grid['origin'] = [-400.0, -400.0, -900.0]
        layered = rng.random() < 0.15
        nkeys = len(SOLVER) + len(NOISE) + len(GRIDDING) + len(LAYERED) + 10
        single = rng.random() < 0.5
        if single:
            # the key of a single-key run cycles with the run index; a key
            # of the layered mode needs a survey that mode supports
            j = index % nkeys
            lo = len(SOLVER) + len(NOISE) + len(GRIDDING)
            if lo <= j < lo + len(LAYERED) or j == nkeys - 5:
                layered = True
        # `remove_empty` alone only shows with sources / receivers that have
        # no observation at all
        only_remove_empty = single and index % nkeys == nkeys - 1
        model = gen.gen_model(rng, cases=['isotropic', 'VTI'] if layered
                              else gen.CASES)
        survey = gen.gen_survey(
            rng, grid, nsrc=(1, 3), nrec=(1, 3), nfreq=(1, 2),
            src_kinds=('dipole', 'point') if layered else
            ('dipole', 'point', 'wire'),
            rec_kinds=('e', 'm') if layered else ('e', 'm', 'erel'))
        survey['nan_frac'] = rng.choice([0.0, 0.0, 0.3])
        # receivers / sources without any observation (for remove_empty)
        survey['empty_rec'] = rng.random() < 0.4
        survey['empty_src'] = rng.random() < 0.2
        if only_remove_empty:
            while len(survey['receivers']) < 2:
                survey['receivers'].append(dict(survey['receivers'][0],
                                                coords=[c + 7.5 for c in
                                                        survey['receivers']
                                                        [0]['coords'][:3]] +
                                                survey['receivers'][0]
                                                ['coords'][3:]))
            survey['empty_rec'] = True
        cfg = {'grid': grid, 'model': model, 'survey': survey,
               'sfmt': rng.choice(FMTS), 'mfmt': rng.choice(FMTS),
               'policy': rng.choice(simpool.POLICIES)}
        # the list of all documented optional keys, for single-key runs
        allkeys = [('solver_opts', k) for k in SOLVER] + \
            [('noise_opts', k) for k in NOISE] + \
            [('gridding_opts', k) for k in GRIDDING] + \
            [('layered', k) for k in LAYERED] + \
            [('simulation', k) for k in ('max_workers', 'gridding', 'name',
                                         'file_dir',
                                         'receiver_interpolation',
                                         'layered')] + \
            [('data', k) for k in ('sources', 'receivers', 'frequencies',
                                   'remove_empty')]
        ninv = rng.choice([1, 1, 2, 2, 3, 4])
        assert len(allkeys) == nkeys and allkeys[nkeys - 5] == (
            'simulation', 'layered')
        if single:
            ninv = 1
        invs = []
        for j in range(ninv):
            invs.append(self._gen_inv(rng, j, layered, single,
                                      allkeys[index % len(allkeys)],
                                      survey, invs))
        return {'config': cfg, 'ops': invs}

    def _gen_inv(self, rng, j, layered, single, onlykey, survey, prev):
        function = rng.choice(['forward', 'misfit', 'gradient', 'gradient'])
        inv = {'op': 'cli', 'function': function, 'ofmt': rng.choice(FMTS),
               'dry': rng.random() < 0.1,
               'verbosity': rng.choice([-1, 0, 0, 1, 2]),
               'sections': {}, 'args': {}}
        sec = inv['sections']
        sec_only, key_only = onlykey if single else (None, None)
        auto = False       # automatic gridding in this invocation?
        if single:
            sim = {}
            if sec_only == 'gridding_opts':
                auto = True
            if sec_only == 'layered' or (sec_only, key_only) == (
                    'simulation', 'layered'):
                inv['layered_run'] = True
            if sec_only == 'noise_opts':
                inv['function'] = 'forward'
            if sec_only == 'simulation':
                if key_only == 'max_workers':
                    sim['max_workers'] = rng.choice([1, 2, 3])
                elif key_only == 'gridding':
                    sim['gridding'] = rng.choice(['same', 'single',
                                                  'frequency', 'source',
                                                  'both'])
                    auto = sim['gridding'] != 'same'
                elif key_only == 'name':
                    sim['name'] = 'My Test'
                elif key_only == 'file_dir':
                    sim['file_dir'] = f'fd/d{j}'
                elif key_only == 'receiver_interpolation':
                    sim['receiver_interpolation'] = rng.choice(['linear',
                                                                'cubic'])
                elif key_only == 'layered':
                    sim['layered'] = True
            sec['simulation'] = sim
            for name, table in (('solver_opts', SOLVER),
                                ('noise_opts', NOISE),
                                ('gridding_opts', GRIDDING),
                                ('layered', LAYERED)):
                if sec_only == name:
                    sec[name] = self._pick(rng, table, 0, key_only)
            if sec_only == 'data':
                sec['data'] = self._gen_data(rng, survey, key_only)
        else:
            sim = {}
            if rng.random() < 0.5:
                sim['max_workers'] = rng.choice([1, 2, 3, 4])
            g = rng.choice(['same', 'same', 'same', 'single', 'frequency',
                            'source', 'both', None])
            if g:
                sim['gridding'] = g
            auto = g != 'same'
            if rng.random() < 0.3:
                sim['name'] = 'A name'
            if rng.random() < 0.2 and not layered:
                # every fresh file-based simulation gets a directory of its
                # own: two simulations sharing one is the C12 finding (and can
                # hand the solver a start field of another grid)
                sim['file_dir'] = f'fd/d{j}'
            if rng.random() < 0.4:
                sim['receiver_interpolation'] = rng.choice(['linear',
                                                            'cubic'])
            if layered and rng.random() < 0.35:
                sim['layered'] = True
            sec['simulation'] = sim
            if rng.random() < 0.7:
                sec['solver_opts'] = self._pick(rng, SOLVER, 0.3)
            if rng.random() < 0.5:
                sec['noise_opts'] = self._pick(rng, NOISE, 0.5)
            if auto and rng.random() < 0.7:
                sec['gridding_opts'] = self._pick(rng, GRIDDING, 0.25)
            if rng.random() < 0.4:
                sec['data'] = self._gen_data(rng, survey, None)
            if layered:
                # in a session whose survey the 1D mode supports, layered is
                # chosen per invocation: a loaded simulation may be switched
                inv['layered_run'] = rng.random() < 0.7
                if rng.random() < 0.6:
                    sec['layered'] = self._pick(rng, LAYERED, 0.4)
            elif rng.random() < 0.15:
                # a [layered] section without layered mode: not used by this
                # run, but part of the simulation that is saved
                sec['layered'] = self._pick(rng, LAYERED, 0.4)
        if sec.get('simulation', {}).get('layered'):
            inv['layered_run'] = True
        inv['auto'] = auto
        # command-line arguments that overlap the config file
        a = inv['args']
        if rng.random() < 0.3:
            a['nproc'] = rng.choice([1, 2, 3])
        if inv.get('layered_run') and not sec['simulation'].get('layered'):
            a['layered'] = True
            if rng.random() < 0.5:
                # the config file says the opposite: the argument wins
                sec['simulation']['layered'] = False
        for k in ('survey', 'model', 'output'):
            # 'file': only in the config file, 'arg': only on the command
            # line, 'both': config names a wrong file, the argument the right
            a[k + '_via'] = rng.choice(['file', 'file', 'arg', 'both'])
        a['path_via'] = rng.choice(['file', 'arg', 'both'])
        # session: save / load / cache / clean
        if not single:
            r = rng.random()
            saved = [p['save'] for p in prev if p.get('save')]
            if saved and r < 0.6:
                a['load'] = rng.choice(saved)
                a['load_how'] = rng.choice(['load', 'cache'])
                if a['load_how'] == 'cache':
                    inv['save'] = a['load']
                # --clean deletes the field files of a file-based simulation;
                # unless the cleaned state is saved back (--cache) the saved
                # file keeps pointing to them (the shared-file_dir finding of
                # C12), so that combination is not generated
                fb = any(p['sections'].get('simulation', {}).get('file_dir')
                         for p in prev)
                if rng.random() < 0.5 and (not fb or
                                           a['load_how'] == 'cache'):
                    a['clean'] = True
                    inv['model_version'] = len(prev) + 1
            elif r < 0.8 or j == 0:
                inv['save'] = f"sim{j}.{rng.choice(FMTS)}"
                a['save_via'] = rng.choice(['file', 'arg'])
        # faults of the input: unknown key / flag, missing file
        r = rng.random()
        if r < 0.06:
            inv['bad'] = {'kind': 'unknown_key', 'section': rng.choice(
                ['files', 'simulation', 'solver_opts', 'gridding_opts',
                 'noise_opts', 'data', 'layered']), 'key': 'nonsense_key'}
        elif r < 0.09:
            inv['bad'] = {'kind': 'unknown_flag'}
        elif r < 0.12:
            inv['bad'] = {'kind': 'missing_file',
                          'which': rng.choice(['survey', 'model'])}
        return inv

    def _gen_data(self, rng, survey, only):
        d = {}
        for k, n in (('sources', len(survey['sources'])),
                     ('receivers', len(survey['receivers'])),
                     ('frequencies', len(survey['frequencies']))):
            if (only is None and rng.random() < 0.5) or only == k:
                idx = [i for i in range(n) if rng.random() < 0.6] or [0]
                d[k] = idx
        if (only is None and rng.random() < 0.4) or only == 'remove_empty':
            d['remove_empty'] = rng.random() < 0.5 or only == 'remove_empty'

        return d

    def simplify(self, case):
        out = []
        for i, inv in enumerate(case['ops']):
            for sname, sec in inv['sections'].items():
                for k in list(sec):
                    n = copy.deepcopy(case)
                    del n['ops'][i]['sections'][sname][k]
                    out.append(n)
            for k in ('nproc',):
                if k in inv['args']:
                    n = copy.deepcopy(case)
                    del n['ops'][i]['args'][k]
                    out.append(n)
            if inv.get('bad'):
                n = copy.deepcopy(case)
                del n['ops'][i]['bad']
                out.append(n)
        s = case['config']['survey']
        for key in ('sources', 'receivers', 'frequencies'):
            if len(s[key]) > 1:
                n = copy.deepcopy(case)
                del n['config']['survey'][key][-1]
                for inv in n['ops']:
                    d = inv['sections'].get('data', {})
                    if key in d:
                        d[key] = [j for j in d[key]
                                  if j < len(s[key]) - 1] or [0]
                out.append(n)
        return out

    # ---------------------------------------------------------------- run
    def run(self, ctx, case):
        import emg3d
        cfg = case['config']
        ctx.pool = simpool.PoolSim(ctx, cfg['policy'], False)
        ctx.io = iofault.IOSim(ctx, ctx.pool)
        root = os.path.join(ctx.scratch, 'work')
        os.makedirs(os.path.join(root, 'fd'))
        argv0 = list(sys.argv)
        sys.argv = ['emg3d', 'x']
        npop = 0
        try:
            with vclock.installed(ctx.clock, ctx.stats), \
                    rngseam.installed(ctx), quiet():
                grid = gen.build_grid(cfg['grid'])
                survey = gen.build_survey(cfg['survey'])
                emg3d.save(os.path.join(root, 'mysurvey.' + cfg['sfmt']),
                           survey=survey, verb=0)
                for v in range(6):
                    m = gen.build_model(dict(cfg['model'], version=v), grid)
                    emg3d.save(os.path.join(root, f"mymodel{v}."
                                            + cfg['mfmt']), model=m, verb=0)
                st = {'root': root, 'cfg': cfg, 'saved': {}}
                for i, inv in enumerate(case['ops']):
                    ctx.opi = i
                    self._invocation(ctx, st, inv)
                    npop = max(npop, sum(1 for s in inv['sections'].values()
                                         if s))
        finally:
            sys.argv = argv0
            _reset_logging()
        shared = sum(1 for inv in case['ops'] if inv['args'].get('load'))
        ctx.nontrivial = shared >= 1 or npop >= 3 or len(case['ops']) == 1
        for inv in case['ops']:
            for sname, sec in inv['sections'].items():
                for k in sec:
                    ctx.stats.feature(sname, k)

    # -- config file text, argv, and the twin's options --------------------
    def _materialise(self, st, inv, i):
        """Returns (config text, argv, twin dict)."""
        root, cfg = st['root'], st['cfg']
        sec, a = inv['sections'], inv['args']
        names = self._names(cfg)
        lines, argv = [], []
        twin = {'sim': {}, 'noise': {}, 'data': {}}
        # [files]
        files = {}
        mver = inv.get('model_version', 0)
        right = {'survey': 'mysurvey.' + cfg['sfmt'],
                 'model': f'mymodel{mver}.' + cfg['mfmt'],
                 'output': f"out{i}.{inv['ofmt']}"}
        bad = inv.get('bad') or {}
        if bad.get('kind') == 'missing_file':
            right[bad['which']] = 'does_not_exist.h5'
        for k in ('survey', 'model', 'output'):
            via = a.get(k + '_via', 'file')
            if via in ('file', 'both'):
                files[k] = right[k] if via == 'file' else 'wrong_' + right[k]
            if via in ('arg', 'both'):
                argv += ['--' + k, right[k]]
        pv = a.get('path_via', 'file')
        if pv in ('file', 'both'):
            files['path'] = root if pv == 'file' else \
                os.path.join(root, 'nowhere')
        if pv in ('arg', 'both'):
            argv += ['--path', root]
        if inv.get('save') and not a.get('load_how') == 'cache':
            if a.get('save_via') == 'arg':
                argv += ['--save', inv['save']]
            else:
                files['save'] = inv['save']
        if a.get('load'):
            how = a['load_how']
            if i % 2:
                argv += ['--' + how, a['load']]
            else:
                files[how] = a['load']
            if a.get('clean'):
                argv += ['--clean']
        lines.append('[files]')
        lines += [f'{k} = {v}' for k, v in files.items()]
        if bad.get('kind') == 'unknown_key' and bad['section'] == 'files':
            lines.append('nonsense_key = 1')
        # [simulation]
        sim = sec.get('simulation', {})
        lines.append('[simulation]')
        for k, v in sim.items():
            lines.append(f'{k} = {v}')
            twin['sim'][k] = v
        if 'file_dir' in sim:
            twin['sim']['file_dir'] = sim['file_dir']
        if 'nproc' in a:
            argv += ['-n', str(a['nproc'])]
            twin['sim']['max_workers'] = a['nproc']
        if a.get('layered'):
            argv += ['--layered']
            twin['sim']['layered'] = True      # terminal beats config file
        if 'name' not in twin['sim']:
            twin['sim']['name'] = 'emg3d CLI run'
        if 'receiver_interpolation' not in twin['sim'] and \
                inv['function'] == 'gradient':
            twin['sim']['receiver_interpolation'] = 'linear'
        if bad.get('kind') == 'unknown_key' and \
                bad['section'] == 'simulation':
            lines.append('nonsense_key = 1')
        # typed sections
        for sname, table, dest in (('solver_opts', SOLVER, 'solver_opts'),
                                   ('gridding_opts', GRIDDING,
                                    'gridding_opts'),
                                   ('noise_opts', NOISE, None),
                                   ('layered', LAYERED, 'layered_opts')):
            chosen = sec.get(sname)
            isbad = bad.get('kind') == 'unknown_key' and \
                bad['section'] == sname
            if chosen is None and not isbad:
                continue
            lines.append(f'[{sname}]')
            vals = {}
            for k, j in (chosen or {}).items():
                text, val = table[k][j % len(table[k])]
                lines.append(f'{k} = {text}')
                vals[k] = copy.deepcopy(val)
            if isbad:
                lines.append('nonsense_key = 1')
            if sname == 'noise_opts':
                twin['noise'] = vals
            elif sname == 'layered':
                lo = {k: vals[k] for k in ('method', 'merge') if k in vals}
                ell = {k: vals[k] for k in ('radius', 'factor', 'minor',
                                            'check_foci') if k in vals}
                if ell:
                    lo['ellipse'] = ell
                if lo:
                    twin['sim']['layered_opts'] = lo
            elif sname == 'gridding_opts':
                if 'cell_number' in vals:       # API name of the option
                    vals['cell_numbers'] = vals.pop('cell_number')
                if vals:
                    twin['sim']['gridding_opts'] = vals
            elif vals:
                twin['sim'][dest] = vals
        # [data]
        d = sec.get('data')
        isbad = bad.get('kind') == 'unknown_key' and bad['section'] == 'data'
        if d is not None or isbad:
            lines.append('[data]')
            for k in ('sources', 'receivers', 'frequencies'):
                if d and k in d:
                    sel = [names[k][j % len(names[k])] for j in d[k]]
                    sel = list(dict.fromkeys(sel))
                    lines.append(f"{k} = {', '.join(sel)}")
                    twin['data'][k] = sel
            if d and 'remove_empty' in d:
                lines.append(f"remove_empty = {d['remove_empty']}")
                twin['data']['remove_empty'] = d['remove_empty']
            if isbad:
                lines.append('nonsense_key = 1')
        # function, verbosity, dry-run
        argv += {'forward': ['-f'] if i % 2 else [], 'misfit': ['-m'],
                 'gradient': ['--gradient']}[inv['function']]
        v = inv['verbosity']
        argv += {-1: ['-q'], 0: [], 1: ['-v'], 2: ['-vv']}[v]
        if inv['dry']:
            argv += ['--dry-run']
        if bad.get('kind') == 'unknown_flag':
            argv += ['--frobnicate']
        twin['verbosity'] = v
        return '\n'.join(lines) + '\n', argv, twin, right

    def _names(self, cfg):
        import emg3d
        sv = gen.build_survey(cfg['survey'])
        return {'sources': list(sv.sources), 'receivers': list(sv.receivers),
                'frequencies': list(sv.frequencies)}

    # -- one invocation -------------------------------------------------------
    def _invocation(self, ctx, st, inv):
        import emg3d
        import importlib
        climain = importlib.import_module('emg3d.cli.main')
        root = st['root']
        i = ctx.opi
        text, argv, twin, right = self._materialise(st, inv, i)
        cfile = os.path.join(root, f'cfg{i}.cfg')
        with open(cfile, 'w') as f:
            f.write(text)
        out_path = os.path.join(root, right['output'])
        log_path = out_path.rsplit('.', 1)[0] + '.log'
        for p in (out_path, log_path):
            if os.path.exists(p):
                os.remove(p)
        bad = inv.get('bad')
        # the twin must start from the same durable state as the CLI run
        # (with --cache the CLI overwrites the file it loaded)
        if inv['args'].get('load'):
            import shutil
            lp = os.path.join(root, inv['args']['load'])
            if os.path.exists(lp):
                shutil.copy(lp, os.path.join(root, 'pre_' +
                                             inv['args']['load']))
        # the field files of a file-based simulation are durable state too
        import shutil
        fdir = os.path.join(root, 'fd')
        fpre = os.path.join(ctx.scratch, 'fdir_pre')
        shutil.rmtree(fpre, ignore_errors=True)
        if os.path.isdir(fdir):
            shutil.copytree(fdir, fpre)
        # ---- the CLI run
        ctx.rng_counts = {}
        ctx.pool.new_op(())
        ctx.io.new_op(())
        t_cli = ctx.clock.now
        cwd = os.getcwd()
        os.chdir(root)
        try:
            with simpool.installed(ctx.pool, 'tqdm', False):
                got = _outcome(lambda: climain.main([cfile] + argv))
        finally:
            os.chdir(cwd)
            _reset_logging()
        ctx.stats.probe('cli_runs')
        if bad:
            # must be rejected with an error, no output written
            if got[0] != 'exc' or os.path.exists(out_path):
                raise Violation(
                    'unknown_accepted',
                    f"{bad} was not rejected: outcome {got[:2]}, output "
                    f"written: {os.path.exists(out_path)}",
                    quantity=bad['kind'], op=inv['function'])
            ctx.stats.probe('rejected/' + bad['kind'])
            ctx.event('cli', {'bad': bad['kind'], 'exc': got[1]})
            return
        # ---- the API twin (same RNG stream, same pool policy), starting
        # from the field files as they were before the CLI ran
        ctx.rng_counts = {}
        fcli = os.path.join(ctx.scratch, 'fdir_cli')
        shutil.rmtree(fcli, ignore_errors=True)
        if os.path.isdir(fdir):
            shutil.move(fdir, fcli)
        if os.path.isdir(fpre):
            shutil.copytree(fpre, fdir)
        try:
            with simpool.installed(ctx.pool, 'tqdm', False):
                want = _outcome(lambda: self._twin(ctx, st, inv, twin,
                                                   right))
        finally:
            # the session continues from what the CLI left behind
            shutil.rmtree(fdir, ignore_errors=True)
            if os.path.isdir(fcli):
                shutil.move(fcli, fdir)
            os.makedirs(fdir, exist_ok=True)
        if got[0] == 'exc' or want[0] == 'exc':
            if got[0] == 'exc' and want[0] == 'ok':
                key = self._blame(inv, got)
                raise Violation(
                    'option_rejected',
                    f'the CLI raised {got[1]}: {got[2]} although the '
                    f'equivalent API calls succeed (sections '
                    f'{ {k: list(v) for k, v in inv["sections"].items() if v} })',
                    quantity=key, op=inv['function'])
            if got[0] == 'ok' and want[0] == 'exc':
                raise Violation(
                    'output_differs',
                    f'the CLI succeeded although the equivalent API calls '
                    f'raise {want[1]}: {want[2]}', quantity='exception',
                    op=inv['function'])
            ctx.event('cli', {'exc': got[1], 'twin': want[1]})
            if got[1] != want[1]:
                ctx.stats.probe('both_raise_differently')
            return
        exp = want[1]
        # ---- compare what the CLI wrote
        if not os.path.exists(out_path):
            raise Violation('output_differs', 'no output file was written',
                            quantity='output', op=inv['function'])
        out = emg3d.load(out_path, verb=0)
        for k in ('data', 'misfit', 'n_observations', 'gradient'):
            if (k in exp) != (k in out):
                raise Violation('output_differs',
                                f'output has {k!r}: {k in out}, expected: '
                                f'{k in exp}', quantity=k,
                                op=inv['function'])
            if k in exp:
                a, b = np.asarray(out[k]), np.asarray(exp[k])
                if a.shape != b.shape or ahash(a.astype(b.dtype)) != \
                        ahash(b):
                    raise Violation(
                        'output_differs',
                        f'{k} written by the CLI differs from the API '
                        f'result: {_d(a, b)} (sections '
                        f'{ {s: list(v) for s, v in inv["sections"].items() if v} }, '
                        f'args {inv["args"]})', quantity=k,
                        op=inv['function'])
        # the log file: this invocation's, complete
        if not os.path.exists(log_path):
            raise Violation('session_state', 'no log file written',
                            quantity='log', op=inv['function'])
        log = open(log_path).read()
        fn = inv['function']
        if f':: emg3d CLI {fn} START ::' not in log or \
                f':: emg3d CLI {fn} END   ::' not in log or \
                log.count(' START ::') != 1:
            raise Violation('session_state',
                            f'log file does not hold exactly this '
                            f'invocation: {log[:200]!r}', quantity='log',
                            op=fn)
        # the saved simulation
        if inv.get('save'):
            spath = os.path.join(root, inv['save'])
            if not os.path.exists(spath):
                raise Violation('session_state',
                                f"save={inv['save']} was not written",
                                quantity='save', op=fn)
            saved = emg3d.Simulation.from_file(spath, verb=0)
            # compare like with like: the twin goes through the same format
            tpath = os.path.join(ctx.scratch, 'twin.' +
                                 spath.rsplit('.', 1)[1])
            exp['sim'].to_file(tpath, verb=0)
            tsim = emg3d.Simulation.from_file(tpath, verb=0)
            d = diff(_simstruct(tsim), _simstruct(saved), 'simulation')
            if d:
                raise Violation('output_differs',
                                f'saved simulation differs from the API '
                                f'twin: {d}', quantity='saved_simulation',
                                op=fn)
            st['saved'][inv['save']] = True
            ctx.stats.probe('saved_simulation_compared')
        ctx.event('cli', {'fn': fn, 'data': ahash(np.asarray(out['data'])),
                          'argv': [ctx.norm(x) for x in argv]})

    def _blame(self, inv, got):
        """Root cause key: exception type and the stable part of its text."""
        import re
        msg = re.sub(r"[0-9.eE+-]{3,}|/[^ ']*", '#', got[2])[:60]
        return f'{got[1]}:{msg}'

    def _twin(self, ctx, st, inv, twin, right):
        """The documented Python-API equivalent of one invocation."""
        import emg3d
        root = st['root']
        a = inv['args']
        fn = inv['function']
        verb = twin['verbosity']
        if a.get('load'):
            sim = emg3d.Simulation.from_file(
                os.path.join(root, 'pre_' + a['load']), verb=0)
            if a.get('clean'):
                sim.clean('computed')
                sim.model = emg3d.load(os.path.join(root, right['model']),
                                       verb=0)['model']
            layered = twin['sim'].get('layered', False)
            if sim.layered != layered:
                sim.layered = layered
        else:
            survey = emg3d.load(os.path.join(root, right['survey']),
                                verb=0)['survey']
            model = emg3d.load(os.path.join(root, right['model']),
                               verb=0)['model']
            if twin['data']:
                d = twin['data']
                survey = survey.select(
                    sources=d.get('sources'), receivers=d.get('receivers'),
                    frequencies=d.get('frequencies'),
                    remove_empty=d.get('remove_empty', False))
            opts = copy.deepcopy(twin['sim'])
            if verb < 1:
                opts['tqdm_opts'] = False
            if 'file_dir' in opts:
                opts['file_dir'] = os.path.join(root, opts['file_dir'])
            cwd = os.getcwd()
            os.chdir(root)
            try:
                sim = emg3d.Simulation(survey=survey, model=model, verb=-1,
                                       **opts)
            finally:
                os.chdir(cwd)
        # the CLI reports the computational grids (also in a dry run), so
        # an impossible gridding request fails there as it does here
        if not sim.layered:
            for src in sim.survey.sources:
                for freq in sim.survey.frequencies:
                    sim.get_grid(src, freq)
        out = {'sim': sim}
        if inv['dry']:
            out['data'] = np.zeros(sim.survey.shape, dtype=complex)
            if fn in ('misfit', 'gradient'):
                out['misfit'] = 0.0
                out['n_observations'] = sim.survey.count
            if fn == 'gradient':
                shape = sim.model.shape
                n = {'isotropic': None, 'HTI': 2, 'VTI': 2,
                     'triaxial': 3}[sim.model.case]
                out['gradient'] = np.zeros(shape if n is None else
                                           (n, *shape))
            return out
        if fn == 'forward':
            sim.compute(observed=True, **twin['noise'])
            out['data'] = sim.data.observed.data.copy()
        else:
            sim.compute()
            out['data'] = sim.data.synthetic.data.copy()
            out['misfit'] = float(sim.misfit)
            out['n_observations'] = sim.survey.count
            if fn == 'gradient':
                out['gradient'] = np.array(sim.gradient)
        return out


def _simstruct(sim):
    """Structure of a simulation without clock-dependent solver info."""
    s = struct(sim)

    def strip(x):
        drop = ('time', 'runtime_at_cycle', 'log', 'file_dir', '_dict_grid')
        if x[0] == 'dict':
            return ('dict', {k: strip(v) for k, v in x[1].items()
                             if k not in drop},
                    [k for k in x[2] if k not in drop])
        if x[0] == 'obj':
            d = strip(('dict', x[2], x[3]))
            return ('obj', x[1], d[1], d[2])
        return x
    return strip(s)


def _outcome(f):
    try:
        return ('ok', f())
    except SystemExit as e:
        return ('exc', 'SystemExit', str(e)[:300])
    except Exception as e:      # noqa
        return ('exc', type(e).__name__, str(e)[:300])


def _d(a, b):
    if a.shape != b.shape:
        return f'shape {a.shape} vs {b.shape}'
    with np.errstate(all='ignore'):
        m = np.isfinite(b) & np.isfinite(a)
        if (np.isfinite(a) != np.isfinite(b)).any():
            return 'NaN pattern differs'
        return (f'max|diff|={np.abs(a[m] - b[m]).max() if m.any() else 0:.3e}'
                f' (max|api|={np.abs(b[m]).max() if m.any() else 0:.3e})')


def _reset_logging():
    logging.captureWarnings(False)
    for name in ('emg3d.cli.run', 'py.warnings'):
        lg = logging.getLogger(name)
        for h in lg.handlers[:]:
            lg.removeHandler(h)
            try:
                h.close()
            except Exception:      # noqa
                pass
