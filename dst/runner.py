"""Batch runner: seeded search over simulated runs, minimisation, replay,
known findings, evidence.  Exit codes: 0 held, 1 violation, 2 harness error.
"""
import json
import os
import select
import shutil
import signal
import subprocess
import sys
import tempfile
import time
import traceback
import faulthandler

from dst import engine
from dst.engine import Violation, HarnessError

VERIF = os.path.dirname(os.path.dirname(os.path.abspath(__file__)))
KNOWN = os.path.join(VERIF, 'known_findings.json')


# ------------------------------------------------------------------ one run
def execute(machine, case, seed, tape=None, strict=False, keep_trace=False):
    """One simulated run.  Pure function of (case, seed/tape, code)."""
    scratch = tempfile.mkdtemp(prefix=f'dst-{machine.pid}-',
                               dir=engine.scratch_root())
    ctx = engine.Ctx(machine.pid, seed, tape, strict, scratch)
    out = {'violation': None, 'error': None}
    cwd = os.getcwd()
    try:
        os.chdir(scratch)
        machine.run(ctx, case)
    except Violation as v:
        out['violation'] = v.to_dict(machine.pid)
    except HarnessError as e:
        out['error'] = f'HarnessError: {e}'
    except Exception:      # noqa - anything else is a harness problem
        out['error'] = traceback.format_exc(limit=12)
    finally:
        os.chdir(cwd)
        shutil.rmtree(scratch, ignore_errors=True)
    st = ctx.stats
    out.update({
        'digest': ctx.trace.digest(), 'steps': ctx.steps,
        'sim_time': round(ctx.clock.total, 3),
        'faults': st.faults, 'probes': st.probes, 'seams': st.seams,
        'features': sorted(st.features), 'tape': ctx.ch.log,
        'nontrivial': bool(getattr(ctx, 'nontrivial', False)),
        'nevents': len(ctx.trace.events),
    })
    if keep_trace:
        out['trace'] = ctx.trace.events
    return out


def gen_case(machine, seed, tier, index):
    rs = engine.run_seed(seed, machine.pid, machine.stream(tier), index)
    case = machine.gen(engine.gen_rng(rs), tier, index)
    return rs, case


def _jd(o):
    """JSON fallback for numpy scalars that slipped into a result."""
    import numpy as np
    if isinstance(o, np.integer):
        return int(o)
    if isinstance(o, np.floating):
        return float(o)
    if isinstance(o, np.bool_):
        return bool(o)
    if isinstance(o, np.ndarray):
        return o.tolist()
    return str(o)


# ------------------------------------------------------------------ workers
EMPTY = {'violation': None, 'digest': '', 'steps': 0, 'sim_time': 0,
         'faults': {}, 'probes': {}, 'seams': {}, 'features': [],
         'tape': {}, 'nontrivial': False, 'nevents': 0}


def _run_chain(machine, seed, tier, chunk):
    """Execute the runs of a chunk one after the other in this process."""
    out = []
    for i in chunk:
        t0 = time.time()
        try:
            rs, case = gen_case(machine, seed, tier, i)
            res = execute(machine, case, rs)
        except Exception:      # noqa
            res = dict(EMPTY, error=traceback.format_exc(limit=8))
            rs, case = None, None
        res['index'] = i
        res['wall'] = round(time.time() - t0, 3)
        if res['violation'] or res['error'] or i < 3:
            res['case'] = case
            res['seed'] = rs
        else:
            res.pop('tape', None)
        if i % 97 == 5 or i < 3:
            res['sample'] = case
        out.append(res)
    return out


def _child(machine, seed, tier, idxs, wfd, t_end, run_timeout):
    """Worker process: its run indices in chunks, every chunk in a forked
    process of its own, results streamed to the parent as JSON lines.

    A chunk starts from the same pristine (warmed-up) interpreter whatever
    ran before it in this worker.  `machine.chunk` runs share one process
    (1 = every run is hermetic; larger for machines whose runs cost
    milliseconds, where one fork per run would dominate).  A violation that
    needs the earlier runs of its chunk is confirmed and replayed as a
    *chain* (see `check`)."""
    w = os.fdopen(wfd, 'w')
    size = max(1, int(getattr(machine, 'chunk', 1)))

    def emit(res):
        try:
            line = json.dumps(res, default=_jd)
        except Exception:      # noqa
            traceback.print_exc()
            line = json.dumps({'index': res.get('index'), 'violation': None,
                               'error': 'result not serialisable: ' +
                               traceback.format_exc(limit=3)})
        w.write(line + '\n')
        w.flush()
    for c in range(0, len(idxs), size):
        if time.time() > t_end:
            break
        chunk = idxs[c:c + size]
        w.write(json.dumps({'start': chunk[0]}) + '\n')
        w.flush()
        st, out = run_isolated(
            lambda: _run_chain(machine, seed, tier, chunk),
            run_timeout * len(chunk))
        if st == 'ok':
            for j, res in enumerate(out):
                res['chain'] = chunk[:j + 1]
                emit(res)
            continue
        # the chunk's process died or hung: every run of it on its own
        for i in chunk:
            st, out = run_isolated(
                lambda: _run_chain(machine, seed, tier, [i]), run_timeout)
            if st == 'ok':
                out[0]['chain'] = [i]
                emit(out[0])
            else:
                emit(dict(EMPTY, error=None, crashed=out, index=i))
    w.write('{"done": true}\n')
    w.flush()
    w.close()
    os._exit(0)


def run_batch(machine, seed, tier, nruns, budget_s, nproc, run_timeout=120,
              stop_on_violation=400, log=print, indices=None, crashed=None):
    """Run `nruns` simulated runs (indices 0..nruns-1) on `nproc` processes.

    Static round-robin assignment keeps the set of runs a function of
    (seed, nruns) alone; the wall budget is a back-stop.  A worker that
    dies (the code under test crashed the interpreter, or a run hung) is
    noted in `crashed` {index: how}; its remaining indices are returned to
    the caller through `crashed['_left']`.
    """
    t0 = time.time()
    t_end = t0 + budget_s
    if indices is None:
        indices = list(range(nruns))
    if crashed is None:
        crashed = {}
    nproc = max(1, min(nproc, len(indices)))
    kids = {}
    for k in range(nproc):
        idxs = indices[k::nproc]
        r, w = os.pipe()
        pid = os.fork()
        if pid == 0:
            os.close(r)
            try:
                _child(machine, seed, tier, idxs, w, t_end, run_timeout)
            finally:
                os._exit(3)
        os.close(w)
        kids[r] = {'pid': pid, 'buf': b'', 'done': False, 'last': time.time(),
                   'idxs': idxs, 'cur': None, 'finished': set()}
    results, errors = [], []
    stop = False
    while kids and not stop:
        rl, _, _ = select.select(list(kids), [], [], 1.0)
        now = time.time()
        for fd in rl:
            k = kids[fd]
            data = os.read(fd, 1 << 20)
            if not data:
                os.close(fd)
                _, status = os.waitpid(k['pid'], 0)
                if not k['done'] and now < t_end:
                    how = (f'signal {os.WTERMSIG(status)}'
                           if os.WIFSIGNALED(status) else
                           f'exit {os.WEXITSTATUS(status)}')
                    if k['cur'] is not None:
                        crashed[k['cur']] = how
                    left = [i for i in k['idxs'] if i not in k['finished']
                            and i != k['cur']]
                    crashed.setdefault('_left', []).extend(left)
                    log(f"  worker {k['pid']} died ({how}) during run "
                        f"{k['cur']}; {len(left)} runs rescheduled")
                del kids[fd]
                continue
            k['last'] = now
            k['buf'] += data
            while b'\n' in k['buf']:
                line, k['buf'] = k['buf'].split(b'\n', 1)
                msg = json.loads(line)
                if msg.get('done'):
                    k['done'] = True
                    continue
                if 'start' in msg:
                    k['cur'] = msg['start']
                    continue
                k['finished'].add(msg['index'])
                k['cur'] = None
                if msg.get('crashed'):
                    crashed[msg['index']] = msg['crashed']
                    continue
                results.append(msg)
                if msg.get('violation') and stop_on_violation:
                    nv = sum(1 for r in results if r.get('violation'))
                    if nv >= stop_on_violation:
                        stop = True
        if now > t_end + run_timeout + 5:
            errors.append('batch overran its budget; killing workers')
            stop = True
    for fd, k in list(kids.items()):
        try:
            os.kill(k['pid'], signal.SIGKILL)
        except ProcessLookupError:
            pass
        os.waitpid(k['pid'], 0)
        os.close(fd)
    results.sort(key=lambda r: r['index'])
    return results, errors, time.time() - t0


def _fresh_tqdm_locks():
    """tqdm guards its bars with one multiprocessing lock that every forked
    process shares; a process that ends while a (monitor) thread holds it
    blocks every other process for ever.  No monitor threads, and a lock of
    its own for every forked process."""
    try:
        import tqdm.std as ts
        ts.tqdm.monitor_interval = 0
        if 'mp_lock' in ts.TqdmDefaultWriteLock.__dict__:
            del ts.TqdmDefaultWriteLock.mp_lock
        stack = [ts.tqdm]
        while stack:
            c = stack.pop()
            stack += c.__subclasses__()
            if '_lock' in c.__dict__:
                del c._lock
            if 'monitor_interval' in c.__dict__:
                c.monitor_interval = 0
    except Exception:      # noqa
        pass


def run_isolated(fn, timeout=300):
    """Run fn() in a forked child; returns ('ok', json-able result) or
    ('crash', how).  Used wherever the code under test could take the
    interpreter down (segfault in a compiled kernel) or hang."""
    r, w = os.pipe()
    pid = os.fork()
    if pid == 0:
        os.close(r)
        code = 0
        try:
            _fresh_tqdm_locks()
            faulthandler.dump_traceback_later(timeout, exit=True)
            out = fn()
            with os.fdopen(w, 'w') as f:
                f.write(json.dumps(out, default=_jd))
        except BaseException:      # noqa
            traceback.print_exc()
            code = 4
        finally:
            os._exit(code)
    os.close(w)
    chunks = []
    with os.fdopen(r, 'rb') as f:
        while True:
            b = f.read(1 << 20)
            if not b:
                break
            chunks.append(b)
    _, status = os.waitpid(pid, 0)
    if os.WIFSIGNALED(status):
        return 'crash', f'signal {os.WTERMSIG(status)}'
    if os.WEXITSTATUS(status) != 0:
        return 'crash', f'exit {os.WEXITSTATUS(status)}'
    try:
        return 'ok', json.loads(b''.join(chunks) or b'null')
    except ValueError:
        return 'crash', 'no result'


CRASH_SIG = lambda pid: f'{pid}/crash/interpreter/run'      # noqa


def chain_isolated(machine, seed, tier, indices, timeout=600):
    """The runs `indices` one after the other in one forked process;
    returns the result of the last one."""
    st, out = run_isolated(lambda: _run_chain(machine, seed, tier, indices),
                           timeout)
    if st == 'crash':
        return {'violation': None, 'error': f'crashed: {out}', 'digest': ''}
    return out[-1]


def execute_isolated(machine, case, seed, tape=None, strict=False,
                     timeout=300):
    """`execute` in a forked child (pristine interpreter state)."""
    st, out = run_isolated(
        lambda: execute(machine, case, seed, tape, strict), timeout)
    if st == 'crash':
        return {'violation': None, 'error': f'crashed: {out}', 'digest': '',
                'tape': {}, 'crashed': out}
    return out


# ------------------------------------------------------------------ shrink
def _same(res, sig):
    return bool(res.get('violation')) and \
        res['violation']['signature'] == sig


def minimise(machine, case, seed, sig, budget_s=150, log=print):
    """ddmin over ops, then faults, then config simplification, then tape."""
    t_end = time.time() + budget_s
    best = json.loads(json.dumps(case))
    tries = [0]

    def ok(c, tape=None, strict=False):
        if time.time() > t_end:
            return False
        tries[0] += 1
        try:
            return _same(execute_isolated(machine, c, seed, tape, strict),
                         sig)
        except Exception:     # noqa
            return False

    # 1. ops: ddmin
    ops = best.get('ops', [])
    n = 2
    while len(ops) >= 2 and time.time() < t_end:
        chunk = max(1, len(ops) // n)
        reduced = False
        for i in range(0, len(ops), chunk):
            cand = ops[:i] + ops[i + chunk:]
            if not cand:
                continue
            c = dict(best, ops=cand)
            if ok(c):
                ops, best, reduced = cand, c, True
                n = max(n - 1, 2)
                break
        if not reduced:
            if chunk == 1:
                break
            n = min(len(ops), n * 2)
    # 2. faults inside ops
    for i, op in enumerate(list(best.get('ops', []))):
        for key in ('faults', 'iofaults', 'decoys'):
            fl = op.get(key) if isinstance(op, dict) else None
            if fl:
                for j in range(len(fl) - 1, -1, -1):
                    nop = dict(op, **{key: fl[:j] + fl[j + 1:]})
                    c = dict(best, ops=best['ops'][:i] + [nop] +
                             best['ops'][i + 1:])
                    if ok(c):
                        best, op, fl = c, nop, nop[key]
    # 3. config simplification offered by the machine
    changed = True
    while changed and time.time() < t_end:
        changed = False
        for c in machine.simplify(best):
            if ok(c):
                best, changed = c, True
                break
    # 4. the tape: replay strictly from the recorded tape, values -> 0
    res = execute_isolated(machine, best, seed)
    tape = dict(res.get('tape', {}))
    if _same(res, sig) and ok(best, tape, True):
        for k in list(tape):
            if tape[k] != 0 and time.time() < t_end:
                t2 = dict(tape)
                t2[k] = 0
                if ok(best, t2, True):
                    tape = t2
        strict = True
    else:
        strict = False
    log(f"  minimised in {tries[0]} executions: "
        f"{len(case.get('ops', []))} -> {len(best.get('ops', []))} ops")
    return best, tape, strict


# ------------------------------------------------------------------ replay
def write_replay(machine, seed, index, case, tape, strict, res, outdir):
    os.makedirs(outdir, exist_ok=True)
    path = os.path.join(outdir, f'replay-{seed}-{index}.json')
    doc = {'property': machine.pid, 'engine': engine.ENGINE_VERSION,
           'seed': seed, 'run': index, 'case': case, 'tape': tape,
           'strict': strict, 'violation': res['violation'],
           'trace_digest': res['digest'], 'minimised': True}
    with open(path, 'w') as f:
        json.dump(doc, f, indent=1, sort_keys=True, default=_jd)
    return path


def write_crash_replay(machine, seed, index, case, how, outdir):
    os.makedirs(outdir, exist_ok=True)
    path = os.path.join(outdir, f'replay-crash-{seed}-{index}.json')
    doc = {'property': machine.pid, 'engine': engine.ENGINE_VERSION,
           'seed': seed, 'run': index, 'case': case, 'tape': {},
           'strict': False, 'trace_digest': None, 'minimised': False,
           'violation': {'class': 'crash', 'quantity': 'interpreter',
                         'op': 'run', 'signature': CRASH_SIG(machine.pid),
                         'detail': f'the code under test took the '
                         f'interpreter down or hung ({how})'}}
    with open(path, 'w') as f:
        json.dump(doc, f, indent=1, sort_keys=True, default=_jd)
    return path


def write_chain_replay(machine, seed, tier, indices, res, outdir):
    os.makedirs(outdir, exist_ok=True)
    path = os.path.join(outdir, f'replay-chain-{seed}-{indices[-1]}.json')
    doc = {'property': machine.pid, 'engine': engine.ENGINE_VERSION,
           'seed': seed, 'run': indices[-1],
           'chain': {'verif_seed': seed, 'tier': tier, 'indices': indices},
           'violation': res['violation'], 'trace_digest': res['digest'],
           'minimised': False,
           'note': 'the violation needs the listed runs to execute before '
                   'it in the same process (state survives between runs)'}
    with open(path, 'w') as f:
        json.dump(doc, f, indent=1, sort_keys=True, default=_jd)
    return path


def replay_file(machine, path, log=print):
    """Re-run a replay file; returns (reproduced, result)."""
    doc = json.load(open(path))
    res = execute(machine, doc['case'], doc['seed'], doc['tape'],
                  doc.get('strict', False), keep_trace=True)
    ok = (res.get('violation') and res['violation']['signature'] ==
          doc['violation']['signature'] and
          res['digest'] == doc['trace_digest'])
    return bool(ok), res, doc


def replay_fresh(pid, path):
    """Replay in a fresh interpreter; 1 = reproduced."""
    p = subprocess.run([os.path.join(VERIF, 'check'), pid, '--replay', path],
                       capture_output=True, text=True, timeout=600)
    return p.returncode == 1 and 'REPLAY-OK' in p.stdout, p.stdout[-2000:]


# ------------------------------------------------------------------ known
def load_known(pid):
    if not os.path.exists(KNOWN):
        return []
    doc = json.load(open(KNOWN))
    return [e for e in doc.get('findings', []) if e.get('property') == pid
            and e.get('status') == 'known']


def _subseq(needle, hay):
    it = iter(hay)
    return all(any(n == h for h in it) for n in needle)


def match_known(entry, violation, case):
    m = entry.get('match', {})
    if m.get('class') and m['class'] != violation['class']:
        return False
    if 'quantity' in m and m['quantity'] != violation.get('quantity'):
        return False
    if 'op' in m and m['op'] != violation.get('op'):
        return False
    if 'detail_contains' in m and \
            m['detail_contains'] not in violation.get('detail', ''):
        return False
    kinds = [o.get('op') if isinstance(o, dict) else o[0]
             for o in case.get('ops', [])]
    if 'quantity_in' in m and violation.get('quantity') not in \
            m['quantity_in']:
        return False
    if 'ops_subseq' in m and not _subseq(m['ops_subseq'], kinds):
        return False
    if 'ops_any' in m and not any(k in kinds for k in m['ops_any']):
        return False
    if 'ops_exclude' in m and any(k in kinds for k in m['ops_exclude']):
        return False
    for k, v in m.get('config', {}).items():
        if case.get('config', {}).get(k) != v:
            return False
    return True


# ------------------------------------------------------------------ evidence
def validate_evidence(path):
    """Validate against the evidence schema with python3-vt's jsonschema."""
    schema = '/root/.vp/EVIDENCE.schema.json'
    exe = shutil.which('python3-vt')
    if not exe or not os.path.exists(schema):
        return None
    code = ("import json,sys,jsonschema;"
            "jsonschema.validate(json.load(open(sys.argv[1])),"
            "json.load(open(sys.argv[2])))")
    p = subprocess.run([exe, '-c', code, path, schema], capture_output=True,
                       text=True)
    return p.returncode == 0 or p.stderr[-500:]


def write_evidence(machine, tier, seed, results, errors, wall, extra,
                   nviol, path):
    digests = {}
    faults, probes, seams, feats = {}, {}, {}, set()
    sim_time = 0.0
    steps = 0
    samples = []
    for r in results:
        if r.get('nontrivial') and not r.get('error'):
            digests[r['digest']] = digests.get(r['digest'], 0) + 1
        for src, dst in ((r.get('faults', {}), faults),
                         (r.get('probes', {}), probes),
                         (r.get('seams', {}), seams)):
            for k, v in src.items():
                dst[k] = dst.get(k, 0) + v
        feats.update(r.get('features', []))
        sim_time += r.get('sim_time', 0)
        steps += r.get('steps', 0)
        if 'sample' in r and len(samples) < 4:
            samples.append({'run': r['index'], 'case': r['sample'],
                            'digest': r['digest'],
                            'events': r.get('nevents')})
    n = len(results)
    slow = sorted(((r.get('wall', 0), r['index']) for r in results),
                  reverse=True)[:3]
    cov = {
        'slowest_runs_wall_s_index': slow,
        'evaluations': n,
        'distinct_nontrivial': len(digests),
        'rule': machine.rule,
        'samples': samples,
        'runs_per_hour': int(n / wall * 3600) if wall > 0 else 0,
        'seeds_per_hour': int(n / wall * 3600) if wall > 0 else 0,
        'sim_time_s': round(sim_time, 1),
        'sim_steps': steps,
        'fault_counts_fired': dict(sorted(faults.items())),
        'probe_counts': dict(sorted(probes.items())),
        'seam_hits': dict(sorted(seams.items())),
        'distinct_reach_features': len(feats),
        'reach_features_sample': sorted(feats)[:40],
        'components_real': machine.components_real,
        'components_stub': machine.components_stub,
        'harness_errors': len(errors),
        'exhaustive': False,
    }
    if hasattr(machine, 'summarise'):
        cov['reach_summary'] = machine.summarise(feats)
    cov.update(extra or {})
    doc = {'property_id': machine.pid, 'tier': tier, 'seed': int(seed),
           'level': 'exploration', 'coverage': cov,
           'assumptions': machine.assumptions, 'wall_s': round(wall, 1),
           'violations': nviol}
    os.makedirs(os.path.dirname(path), exist_ok=True)
    with open(path, 'w') as f:
        json.dump(doc, f, indent=1, sort_keys=True, default=_jd)
    return doc


# ------------------------------------------------------------------ check
def with_scratch(fn):
    """Run fn() with a private scratch parent that is removed afterwards,
    also when workers were killed and could not clean up themselves."""
    base = engine.scratch_root()
    parent = tempfile.mkdtemp(prefix='dstcheck-', dir=base)
    os.environ['VERIF_SCRATCH'] = parent
    try:
        return fn()
    finally:
        os.environ['VERIF_SCRATCH'] = base
        shutil.rmtree(parent, ignore_errors=True)


def check(machine, tier, seed, log=print):
    """The quick / thorough check of one property.  Returns the exit code."""
    return with_scratch(lambda: _check(machine, tier, seed, log))


def _check(machine, tier, seed, log=print):
    t0 = time.time()
    plan = machine.plan(tier)
    nproc = int(os.environ.get('VERIF_PROCS', os.cpu_count() or 4))
    scale = float(os.environ.get('VERIF_SCALE', 1))
    nruns = int(os.environ.get('VERIF_RUNS', int(plan['runs'] * scale)))
    budget = float(os.environ.get('VERIF_BUDGET_S',
                                  plan['budget_s'] * max(scale, 0.5)))
    log(f"[{machine.pid}] tier={tier} VERIF_SEED={seed} runs<={nruns} "
        f"budget={budget:.0f}s procs={nproc}")
    errors = []
    outdir = os.path.join(os.environ.get('VERIF_OUT_DIR') or
                          os.path.join(VERIF, 'out'), machine.pid)
    crash_lines = []
    # canary: the warm-up (a few plain solver calls) in a child, so that a
    # change that crashes compiled kernels does not take the check down
    st, how = run_isolated(lambda: (machine.warmup(), 'warm')[1], 600)
    if st == 'crash':
        path = write_crash_replay(machine, seed, -1, {'warmup': True}, how,
                                  outdir)
        log(f"  the interpreter crashed during warm-up ({how})")
        print(f"VIOLATION property={machine.pid} replay={path}")
        return 1
    machine.warmup()

    # determinism self-check: first seeds twice (each in its own process),
    # digests must agree
    def _once(i):
        rs, case = gen_case(machine, seed, tier, i)
        a = execute(machine, case, rs)
        return [a['digest'], a['error']]
    for i in range(plan.get('det_runs', 3)):
        sa, a = run_isolated(lambda i=i: _once(i),
                             plan.get('run_timeout', 180))
        sb, b = run_isolated(lambda i=i: _once(i),
                             plan.get('run_timeout', 180))
        if sa == 'ok' and sb == 'ok' and (a[0] != b[0] or a[1] or b[1]):
            errors.append(f'nondeterminism or error on run {i}: '
                          f'{a[0]} vs {b[0]} {a[1] or b[1] or ""}')
    crashed = {}
    results, errs, wall = run_batch(
        machine, seed, tier, nruns, budget, nproc,
        run_timeout=plan.get('run_timeout', 180), log=log, crashed=crashed)
    errors += errs
    for _ in range(3):          # reschedule what dead workers left behind
        left = crashed.pop('_left', [])
        if not left:
            break
        more, errs, _w = run_batch(
            machine, seed, tier, nruns, budget, nproc,
            run_timeout=plan.get('run_timeout', 180), log=log,
            indices=left, crashed=crashed)
        results += more
        errors += errs
    results.sort(key=lambda r: r['index'])
    # runs during which a worker died: confirm in isolation
    for i, how in sorted((k, v) for k, v in crashed.items()
                         if k != '_left')[:4]:
        rs, case = gen_case(machine, seed, tier, i)
        # a time-out on a busy machine is not a hang: the confirmation gets
        # four times the per-run limit
        st, out = run_isolated(lambda: execute(machine, case, rs),
                               4 * plan.get('run_timeout', 180))
        if st == 'crash':
            path = write_crash_replay(machine, rs, i, case, out, outdir)
            log(f"  run {i} crashes the interpreter / hangs ({out}), "
                f"reproduced in isolation")
            crash_lines.append(
                f"VIOLATION property={machine.pid} replay={path}")
        else:
            # slow, not broken: the run counts, the event is reported
            log(f"  run {i}: {how} in the batch, completes in isolation")
            out['index'] = i
            out.setdefault('probes', {})['slow_or_interrupted_run'] = 1
            results.append(out)
    errors += [f"run {r['index']}: {r['error']}" for r in results
               if r.get('error')]
    # seams the check depends on must have been hit
    seams = {}
    for r in results:
        for k, v in r.get('seams', {}).items():
            seams[k] = seams.get(k, 0) + v
    for s in machine.required_seams:
        if not seams.get(s):
            errors.append(f'seam_missed: {s} was never reached')

    # violations -> minimise, replay, classify
    known = load_known(machine.pid)
    lines, nviol, known_hit = list(crash_lines), len(crash_lines), {}
    groups = {}
    for r in results:
        if r.get('violation'):
            groups.setdefault(r['violation']['signature'], []).append(r)
    picks = []
    for sig, rs in groups.items():
        # members that no known finding explains (judged on the raw case)
        # come first, so that a different violation with the same signature
        # is not hidden behind a known one
        unknown = [r for r in rs if not any(
            match_known(e, r['violation'], r['case']) for e in known)]
        picks += unknown[:2] if unknown else rs[:1]
        log(f"  {len(rs)} run(s) with signature {sig} "
            f"({len(unknown)} not explained by a known finding)")
    for r in picks[:8]:
        v = r['violation']
        log(f"  violation candidate run {r['index']}: {v['signature']}: "
            f"{v['detail'][:300]}")
        case, tape, strict = minimise(machine, r['case'], r['seed'],
                                      v['signature'],
                                      budget_s=plan.get('shrink_s', 150),
                                      log=log)
        res = execute_isolated(machine, case, r['seed'], tape, strict)
        if not _same(res, v['signature']) and len(r.get('chain', [])) > 1:
            # not on its own: with the runs that preceded it in its process?
            cres = chain_isolated(machine, seed, tier, r['chain'],
                                  plan.get('run_timeout', 180) *
                                  len(r['chain']))
            if _same(cres, v['signature']):
                path = write_chain_replay(machine, seed, tier, r['chain'],
                                          cres, outdir)
                okr, tail = replay_fresh(machine.pid, path)
                if okr:
                    nviol += 1
                    lines.append(f"VIOLATION property={machine.pid} "
                                 f"replay={path}")
                    log(f"  run {r['index']} violates only after runs "
                        f"{r['chain'][:-1]} in the same process (state "
                        f"survives between runs): "
                        f"{cres['violation']['detail'][:400]}")
                    continue
        if not _same(res, v['signature']):
            errors.append(f"run {r['index']}: violation did not reproduce "
                          f"in-process after minimisation")
            continue
        entry = next((e for e in known
                      if match_known(e, res['violation'], case)), None)
        path = write_replay(machine, r['seed'], r['index'], case, tape,
                            strict, res, outdir)
        okr, tail = replay_fresh(machine.pid, path)
        if not okr:
            errors.append(f"run {r['index']}: replay in a fresh interpreter "
                          f"did not reproduce ({path}): {tail[-400:]}")
            continue
        if entry is not None:
            known_hit[entry['id']] = entry
            log(f"  matches known finding {entry['id']} (replay {path})")
        else:
            nviol += 1
            lines.append(f"VIOLATION property={machine.pid} replay={path}")
            log(f"  {res['violation']['detail'][:600]}")

    extra = {}
    if hasattr(machine, 'post_batch'):
        extra, perrs = machine.post_batch(tier, seed, log)
        errors += perrs
    extra['known_findings_matched'] = sorted(known_hit)
    extra['determinism'] = {'runs_executed_twice': plan.get('det_runs', 3)}
    epath = os.path.join(os.environ.get('VERIF_EVIDENCE_DIR') or
                         os.path.join(VERIF, 'evidence'),
                         f'{machine.pid}.json')
    doc = write_evidence(machine, tier, seed, results, errors,
                         time.time() - t0, extra, nviol, epath)
    val = validate_evidence(epath)
    if val not in (True, None):
        errors.append(f'evidence file does not validate: {val}')
    c = doc['coverage']
    log(f"[{machine.pid}] runs={c['evaluations']} distinct_nontrivial="
        f"{c['distinct_nontrivial']} wall={time.time() - t0:.0f}s "
        f"sim_time={c['sim_time_s']}s faults={c['fault_counts_fired']}")
    for e in known_hit.values():
        print(f"KNOWN-FINDING: property={machine.pid} {e['what']}")
    for ln in lines:
        print(ln)
    if errors:
        for e in errors[:10]:
            print(f"HARNESS-ERROR: {e}", file=sys.stderr)
    sys.stdout.flush()
    if nviol:
        return 1
    if errors:
        return 2
    if c['evaluations'] < 1 or c['distinct_nontrivial'] < 2:
        print('HARNESS-ERROR: too few runs completed', file=sys.stderr)
        return 2
    return 0


def do_replay(machine, path, log=print):
    return with_scratch(lambda: _do_replay(machine, path, log))


def _do_replay(machine, path, log=print):
    doc = json.load(open(path))
    if doc['violation']['class'] == 'crash':
        if doc['case'].get('warmup'):
            st, out = run_isolated(lambda: (machine.warmup(), 'warm')[1],
                                   600)
        else:
            st, out = run_isolated(
                lambda: (machine.warmup(), execute(
                    machine, doc['case'], doc['seed']))[1], 900)
        if st == 'crash':
            print(f"REPLAY-OK property={machine.pid} "
                  f"signature={doc['violation']['signature']} ({out})")
            print(f"VIOLATION property={machine.pid} replay={path}")
            return 1
        v = out.get('violation') if isinstance(out, dict) else None
        print(f"REPLAY-DIFFERS expected a crash, got "
              f"{v['signature'] if v else 'a clean run'}")
        if v:
            print(f"VIOLATION property={machine.pid} replay={path}")
            return 1
        return 0
    if 'chain' in doc:
        machine.warmup()
        ch = doc['chain']
        res = _run_chain(machine, ch['verif_seed'], ch['tier'],
                         ch['indices'])[-1]
        v = res.get('violation')
        if v and v['signature'] == doc['violation']['signature']:
            print(f"REPLAY-OK property={machine.pid} "
                  f"signature={v['signature']} (chain of "
                  f"{len(ch['indices'])} runs)")
            print(f"  {v['detail'][:1500]}")
            print(f"VIOLATION property={machine.pid} replay={path}")
            return 1
        print(f"REPLAY-DIFFERS expected={doc['violation']['signature']} "
              f"got={v['signature'] if v else None}")
        if v:
            print(f"VIOLATION property={machine.pid} replay={path}")
            return 1
        return 0
    machine.warmup()
    ok, res, doc = replay_file(machine, path)
    v = res.get('violation')
    if ok:
        print(f"REPLAY-OK property={machine.pid} "
              f"signature={v['signature']} digest={res['digest']}")
        print(f"  {v['detail'][:1500]}")
        print(f"VIOLATION property={machine.pid} replay={path}")
        return 1
    print(f"REPLAY-DIFFERS expected={doc['violation']['signature']} "
          f"digest={doc['trace_digest']} got="
          f"{v['signature'] if v else None} digest={res['digest']} "
          f"error={res.get('error')}")
    if v:
        print(f"  {v['detail'][:1500]}")
        print(f"VIOLATION property={machine.pid} replay={path}")
        return 1
    return 2 if res.get('error') else 0
