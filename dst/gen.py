"""Seeded generators of small emg3d problems (plain JSON configs) and the
builders that turn a config into emg3d objects.  Building is a pure function
of the config, so a reference object can always be rebuilt from it."""
import numpy as np

MAPPINGS = ['Conductivity', 'Resistivity', 'LgConductivity', 'LgResistivity',
            'LnConductivity', 'LnResistivity']
CASES = ['isotropic', 'HTI', 'VTI', 'triaxial']


def _r(rng, lo, hi, nd=3):
    return round(rng.uniform(lo, hi), nd)


# ---------------------------------------------------------------- grid
def gen_grid(rng, nmin=4, nmax=8, even=True):
    """Grid config: widths per direction (stretched) around origin."""
    cfg = {}
    for d in 'xyz':
        if even:
            n = rng.choice([n for n in range(nmin, nmax + 1) if n % 2 == 0])
        else:
            n = rng.randint(nmin, nmax)
        base = rng.choice([100.0, 200.0, 250.0])
        fac = rng.choice([1.0, 1.0, 1.1, 1.25, 1.4])
        # stretch outwards from the centre
        half = [base * fac ** i for i in range((n + 1) // 2)]
        h = (half[::-1] + half)[:n] if n % 2 == 0 else \
            (half[::-1] + half[1:])
        cfg['h' + d] = [round(v, 3) for v in h[:n]]
    cfg['origin'] = [-round(sum(cfg['hx']) / 2, 3),
                     -round(sum(cfg['hy']) / 2, 3),
                     -round(sum(cfg['hz']) / 2 + 500, 3)]
    return cfg


def build_grid(cfg):
    import emg3d
    return emg3d.TensorMesh([np.array(cfg['hx']), np.array(cfg['hy']),
                             np.array(cfg['hz'])], origin=cfg['origin'])


# ---------------------------------------------------------------- model
def gen_model(rng, cases=CASES, mappings=MAPPINGS, mu=False, eps=False):
    return {'case': rng.choice(cases), 'mapping': rng.choice(mappings),
            'seed': rng.randint(0, 10**6), 'mu_r': bool(mu and
                                                       rng.random() < .3),
            'epsilon_r': bool(eps and rng.random() < .3),
            'version': 0}


def _cond(shape, seed, version, comp):
    """Deterministic positive conductivities (S/m), 0.05 .. 5."""
    g = np.random.default_rng([seed, version, comp])
    return 10 ** g.uniform(-1.3, 0.7, shape)


def build_model(cfg, grid):
    import emg3d
    shape = grid.shape_cells
    fwd = {
        'Conductivity': lambda c: c, 'Resistivity': lambda c: 1 / c,
        'LgConductivity': np.log10, 'LgResistivity': lambda c: -np.log10(c),
        'LnConductivity': np.log, 'LnResistivity': lambda c: -np.log(c),
    }[cfg['mapping']]
    kw = {'property_x': fwd(_cond(shape, cfg['seed'], cfg['version'], 0))}
    if cfg['case'] in ('HTI', 'triaxial'):
        kw['property_y'] = fwd(_cond(shape, cfg['seed'], cfg['version'], 1))
    if cfg['case'] in ('VTI', 'triaxial'):
        kw['property_z'] = fwd(_cond(shape, cfg['seed'], cfg['version'], 2))
    if cfg.get('mu_r'):
        g = np.random.default_rng([cfg['seed'], 7])
        kw['mu_r'] = g.uniform(1, 3, shape)
    if cfg.get('epsilon_r'):
        g = np.random.default_rng([cfg['seed'], 8])
        kw['epsilon_r'] = g.uniform(1, 30, shape)
    return emg3d.Model(grid, mapping=cfg['mapping'], **kw)


# ---------------------------------------------------------------- survey
def _interior(rng, grid_cfg, margin=1.3):
    """A coordinate well inside the grid (second .. second-last cell)."""
    out = []
    for i, d in enumerate('xyz'):
        h = grid_cfg['h' + d]
        lo = grid_cfg['origin'][i] + h[0] * margin
        hi = grid_cfg['origin'][i] + sum(h) - h[-1] * margin
        out.append(_r(rng, lo, hi, 2))
    return out


def gen_survey(rng, grid_cfg, nsrc=(1, 3), nrec=(1, 3), nfreq=(1, 2),
               src_kinds=('dipole', 'point', 'wire', 'mdipole'),
               rec_kinds=('e', 'm', 'erel'), observed=True, noise=True):
    ns, nr, nf = (rng.randint(*nsrc), rng.randint(*nrec), rng.randint(*nfreq))
    srcs = []
    for _ in range(ns):
        kind = rng.choice(src_kinds)
        c = _interior(rng, grid_cfg, 1.6)
        az, el = _r(rng, -90, 90, 1), _r(rng, -60, 60, 1)
        if kind == 'dipole':
            c2 = _interior(rng, grid_cfg, 1.6)
            srcs.append({'kind': 'dipole',
                         'coords': [c[0], c2[0], c[1], c2[1], c[2], c2[2]],
                         'strength': rng.choice([1.0, 2.5])})
        elif kind == 'wire':
            pts = [c, _interior(rng, grid_cfg, 1.6),
                   _interior(rng, grid_cfg, 1.6)]
            srcs.append({'kind': 'wire', 'coords': pts,
                         'strength': rng.choice([1.0, 3.0])})
        elif kind == 'mdipole':
            srcs.append({'kind': 'mdipole', 'coords': c + [az, el],
                         'strength': 1.0})
        else:
            srcs.append({'kind': 'point', 'coords': c + [az, el],
                         'strength': rng.choice([1.0, 0.5])})
    recs = []
    for _ in range(nr):
        kind = rng.choice(rec_kinds)
        c = _interior(rng, grid_cfg, 1.6)
        az, el = _r(rng, -90, 90, 1), _r(rng, -60, 60, 1)
        if kind == 'erel':
            # relative offsets small enough to stay inside for any source
            recs.append({'kind': 'e', 'relative': True,
                         'coords': [_r(rng, -20, 20, 1), _r(rng, -20, 20, 1),
                                    _r(rng, -10, 10, 1), az, el]})
        else:
            recs.append({'kind': kind, 'relative': False,
                         'coords': c + [az, el]})
    freqs = sorted(rng.sample([0.5, 0.8, 1.0, 1.5, 2.0, 3.0, 5.0], nf))
    cfg = {'sources': srcs, 'receivers': recs, 'frequencies': freqs,
           'observed_seed': rng.randint(0, 10**6) if observed else None,
           'nan_frac': rng.choice([0.0, 0.0, 0.2, 0.4]),
           'noise_floor': rng.choice([None, 1e-15, 3e-14]) if noise else None,
           'relative_error': rng.choice([None, 0.05, 0.1]) if noise
           else None}
    if noise and cfg['noise_floor'] is None and cfg['relative_error'] is None:
        cfg['noise_floor'] = 1e-15
    return cfg


def _mk_src(s):
    import emg3d
    if s['kind'] == 'dipole':
        return emg3d.TxElectricDipole(s['coords'], strength=s['strength'])
    if s['kind'] == 'wire':
        return emg3d.TxElectricWire(s['coords'], strength=s['strength'])
    if s['kind'] == 'mdipole':
        return emg3d.TxMagneticDipole(s['coords'], strength=s['strength'])
    return emg3d.TxElectricPoint(s['coords'], strength=s['strength'])


def _mk_rec(r):
    import emg3d
    cls = emg3d.RxElectricPoint if r['kind'] == 'e' else emg3d.RxMagneticPoint
    return cls(r['coords'], relative=r.get('relative', False))


def build_survey(cfg):
    import emg3d
    srcs = [_mk_src(s) for s in cfg['sources']]
    recs = [_mk_rec(r) for r in cfg['receivers']]
    shape = (len(srcs), len(recs), len(cfg['frequencies']))
    data = None
    if cfg.get('observed_seed') is not None:
        g = np.random.default_rng(cfg['observed_seed'])
        data = (g.standard_normal(shape) + 1j * g.standard_normal(shape))
        data *= 1e-13
        if cfg.get('nan_frac'):
            mask = g.uniform(size=shape) < cfg['nan_frac']
            # keep at least one finite datum
            if mask.all():
                mask.flat[0] = False
            data[mask] = np.nan + 1j * np.nan
        if cfg.get('empty_rec') and shape[1] > 1:
            data[:, -1, :] = np.nan + 1j * np.nan      # a receiver w/o data
        if cfg.get('empty_src') and shape[0] > 1:
            data[0, :, :] = np.nan + 1j * np.nan       # a source w/o data
    return emg3d.Survey(
        sources=emg3d.surveys.txrx_lists_to_dict(srcs),
        receivers=emg3d.surveys.txrx_lists_to_dict(recs),
        frequencies=list(cfg['frequencies']), data=data,
        noise_floor=cfg.get('noise_floor'),
        relative_error=cfg.get('relative_error'), name='sim-survey')


# ---------------------------------------------------------------- solver
def gen_solver_opts(rng, light=True):
    o = {'sslsolver': rng.choice([False, False, 'bicgstab', 'gcrotmk',
                                  'cgs']),
         'semicoarsening': rng.choice([False, True, 1, 23]),
         'linerelaxation': rng.choice([False, True, 4, 56]),
         'cycle': rng.choice(['F', 'V', 'W']),
         'tol': rng.choice([1e-4, 1e-5, 1e-6]),
         'maxit': rng.choice([2, 5, 30]),
         'verb': rng.choice([0, 1, 1, 2]),
         }
    if rng.random() < 0.4:
        o['tol_gradient'] = rng.choice([1e-2, 1e-3])
    if rng.random() < 0.15 and o['sslsolver']:
        o['cycle'] = None
    return o
