"""C01 — reported solver success certifies the returned field.

A run is a short history of solver calls on one problem (fresh field, then
calls with a caller-supplied field), under a scripted environment: a
contract-abiding Krylov adversary around the real SciPy solver (suppressed
callbacks, abort with a legal non-zero code), numeric break-down injected
after a scheduled smoothing call (NaN / Inf everywhere; a finite blow-up only
for stand-alone multigrid), and clock jumps.  The oracle is an independent
finite-integration operator assembled with discretize.
"""
import copy
import warnings

import numpy as np

from dst import gen, oracle, clock as vclock
from dst.engine import Violation, ahash
from dst.machine import Machine, quiet

DELTA = 0.5        # slack on tol*||s|| for recurrence-vs-true residual drift
FIELDS = ['prev', 'prev', 'prev_perturbed', 'random', 'zeros', 'wrong_dtype',
          'nofreq']


class _Abort(BaseException):
    pass


class C01(Machine):
    chunk = 40      # runs per forked process (see runner._child)
    pid = 'C01'
    rule = ("one run = one generated problem (grid 2..10 cells/direction any "
            "parity, stretched; iso/VTI/HTI/triaxial x 6 mappings, optional "
            "mu_r/epsilon_r; frequency or Laplace; dipole/point/wire/random-"
            "interior/zero source) x one solver configuration x a history of "
            "1-4 solver calls (fresh or caller-supplied field, return_info "
            "on/off), optionally under a scripted environment (Krylov "
            "adversary, numeric break-down, clock jump); non-trivial = the "
            "solver was reached and the verdict was not a first-try "
            "convergence, or a supplied-field call was made, or a fault "
            "fired; distinct = distinct trace digest")
    components_real = ['emg3d.solver (solve, multigrid, krylov, residual, '
                       'MGParameters, _terminate)', 'emg3d.core kernels',
                       'emg3d.models.VolumeModel', 'emg3d.fields',
                       'scipy.sparse.linalg.bicgstab/cgs/gcrotmk (wrapped '
                       'when the adversary is active)']
    components_stub = ['Krylov adversary wrapper (suppresses callbacks / '
                       'aborts with a legal non-zero code)',
                       'numeric break-down injector behind '
                       'emg3d.solver.smoothing', 'wall clock -> VirtualClock']
    assumptions = ['the finite-integration operator assembled with '
                   'discretize is trusted and not re-validated against the '
                   'kernel at check time',
                   f'slack DELTA={DELTA} on tol*||s|| for recurrence-versus-'
                   'true residual drift of the SciPy solvers (measured drift '
                   'is reported as probe max_ratio_x1000)']
    required_seams = ['clock']

    def plan(self, tier):
        if tier == 'quick':
            return {'runs': 4000, 'budget_s': 600, 'det_runs': 3,
                    'run_timeout': 120, 'shrink_s': 120}
        return {'runs': 100000, 'budget_s': 3000, 'det_runs': 5,
                'run_timeout': 200, 'shrink_s': 200}

    # ---------------------------------------------------------------- gen
    def gen(self, rng, tier, index):
        nmax = rng.choice([4, 6, 8, 10])
        grid = gen.gen_grid(rng, 2, nmax, even=False)
        n = [len(grid['h' + d]) for d in 'xyz']
        model = gen.gen_model(rng, mu=True, eps=True)
        freq = rng.choice([0.5, 1.0, 3.0, 10.0, -0.5, -2.0, -7.0])
        kinds = ['random', 'random', 'zero']
        if min(n) >= 4:
            kinds += ['dipole', 'point', 'wire', 'dipole']
        src = {'kind': rng.choice(kinds), 'seed': rng.randint(0, 10**6)}
        if src['kind'] in ('dipole', 'point', 'wire'):
            s = gen.gen_survey(rng, grid, nsrc=(1, 1), nrec=(1, 1),
                               nfreq=(1, 1), src_kinds=(src['kind'],))
            src['spec'] = s['sources'][0]
        ssl = rng.choice([False, False, 'bicgstab', 'bicgstab', 'cgs',
                          'gcrotmk', True])
        cycle = rng.choice(['F', 'V', 'W', 'F'])
        if ssl and rng.random() < 0.2:
            cycle = None
        so = {
            'sslsolver': ssl, 'cycle': cycle,
            'semicoarsening': rng.choice([False, True, 1, 2, 3, 12, 1213,
                                          302]),
            'linerelaxation': rng.choice([False, True, 1, 2, 3, 4, 5, 6, 7,
                                          46, 1213, 570]),
            'tol': rng.choice([1e-3, 1e-4, 1e-6, 1e-6, 1e-8, 1e-9]),
            'maxit': rng.choice([1, 2, 3, 5, 10, 30, 60]),
            'verb': rng.choice([-1, 0, 1, 2, 3, 4, 5]),
        }
        if rng.random() < 0.4:
            so['nu_init'] = rng.randint(0, 3)
            so['nu_pre'] = rng.randint(0, 3)
            so['nu_coarse'] = rng.randint(0, 3)
            so['nu_post'] = rng.randint(0, 3)
            if so['nu_pre'] + so['nu_post'] + so['nu_coarse'] == 0:
                so['nu_post'] = 1
        if rng.random() < 0.3:
            so['clevel'] = rng.choice([0, 1, 2, 3])
        config = {'grid': grid, 'model': model, 'freq': freq, 'source': src,
                  'solver_opts': so}
        ops = []
        faulty = rng.random() < 0.45
        for i in range(rng.randint(1, 4)):
            if i > 0 and rng.random() < 0.3:
                # the model changes between two calls: through the property
                # setters, or in place through the arrays themselves
                ops.append({'op': 'update_model',
                            'how': rng.choice(['array', 'array', 'setter']),
                            'seed': rng.randint(0, 10**6)})
            op = {'op': 'solve', 'field': None if i == 0 and
                  rng.random() < 0.8 else rng.choice(FIELDS),
                  'return_info': rng.random() < 0.6,
                  'always_return': rng.random() < 0.25,
                  'via': rng.choice(['solve', 'solve', 'solve_source']),
                  'fseed': rng.randint(0, 10**6)}
            if faulty and rng.random() < 0.7:
                k = rng.choice(['krylov', 'krylov', 'numeric', 'numeric',
                                'clock'])
                if k == 'krylov' and ssl:
                    op['krylov'] = {
                        'suppress': rng.choice(['none', 'all', 'odd']),
                        'abort_at': rng.choice([None, None, 1, 2, 3, 5, 9,
                                                17]),
                        'code': rng.choice([1, 7, -10, -11, 50])}
                elif k == 'numeric' and cycle is not None:
                    kinds = ['nan', 'inf', 'neginf']
                    if not ssl:
                        kinds += ['scale', 'scale']
                    op['numeric'] = {'at': rng.choice([1, 2, 3, 4, 6, 9, 14,
                                                       25]),
                                     'where': rng.choice(['smoothing',
                                                          'smoothing',
                                                          'prolongation',
                                                          'restriction']),
                                     'kind': rng.choice(kinds)}
                else:
                    op['clock_jump'] = rng.choice([-3600.0, 1e6])
            ops.append(op)
        return {'config': config, 'ops': ops}

    def simplify(self, case):
        c = case['config']
        out = []
        so = c['solver_opts']
        for k, v in (('semicoarsening', False), ('linerelaxation', False),
                     ('verb', 0), ('cycle', 'V')):
            if so.get(k) != v and not (k == 'cycle' and so.get(k) is None):
                n = copy.deepcopy(case)
                n['config']['solver_opts'][k] = v
                out.append(n)
        for k in ('nu_init', 'nu_pre', 'nu_coarse', 'nu_post', 'clevel'):
            if k in so:
                n = copy.deepcopy(case)
                del n['config']['solver_opts'][k]
                out.append(n)
        m = c['model']
        for k, v in (('case', 'isotropic'), ('mapping', 'Conductivity'),
                     ('mu_r', False), ('epsilon_r', False)):
            if m[k] != v:
                n = copy.deepcopy(case)
                n['config']['model'][k] = v
                out.append(n)
        for d in 'xyz':
            h = c['grid']['h' + d]
            if len(h) > 2 and c['source']['kind'] in ('random', 'zero'):
                n = copy.deepcopy(case)
                n['config']['grid']['h' + d] = h[:max(2, len(h) // 2)]
                out.append(n)
        return out

    # ---------------------------------------------------------------- build
    def _problem(self, cfg):
        import emg3d
        grid = gen.build_grid(cfg['grid'])
        model = gen.build_model(cfg['model'], grid)
        src = cfg['source']
        freq = cfg['freq']
        if src['kind'] in ('random', 'zero'):
            sf = emg3d.Field(grid, frequency=freq)
            if src['kind'] == 'random':
                g = np.random.default_rng(src['seed'])
                v = g.standard_normal(sf.field.size)
                if freq > 0:
                    v = v + 1j * g.standard_normal(sf.field.size)
                mask = oracle.interior_mask(grid.shape_cells)
                # sparse support on free edges
                keep = g.uniform(size=v.size) < 0.3
                v[~(mask & keep)] = 0
                if not v.any():
                    v[np.argmax(mask)] = 1.0
                sf.field[:] = v
        else:
            source = gen._mk_src(src['spec'])
            sf = emg3d.get_source_field(grid, source, freq)
            return grid, model, sf, source
        return grid, model, sf, None

    # ---------------------------------------------------------------- run
    def run(self, ctx, case):
        cfg = case['config']
        ctx.max_ratio = 0.0
        with vclock.installed(ctx.clock, ctx.stats), quiet():
            grid, model, sf, source = self._problem(cfg)
            # the checker keeps its own copies of what it hands to the
            # solver: the oracle never reads the objects the solver saw
            st = {'prev': None, 'grid': grid, 'model': model, 'sf': sf,
                  'cfg': cfg, 'source': source, 'ref_model': model.copy(),
                  'ref_s': np.array(sf.field, copy=True)}
            ctx.event('problem', {'shape': list(grid.shape_cells),
                                  'dtype': str(sf.field.dtype)})
            for i, op in enumerate(case['ops']):
                ctx.opi = i
                if op['op'] == 'update_model':
                    self._update_model(ctx, st, op)
                else:
                    self._call(ctx, st, op)
        ctx.stats.probe('max_ratio_x1000', 0)
        ctx.stats.probes['max_ratio_x1000'] = int(ctx.max_ratio * 1000)

    def _update_model(self, ctx, st, op):
        """New conductivities in a sub-block of every property array."""
        for which in ('model', 'ref_model'):
            self._update_one(st[which], op, 'array' if which == 'ref_model'
                             else op['how'])
        ctx.stats.probe('model_updated/' + op['how'])
        ctx.nontrivial = True
        ctx.event('update_model', op['how'])

    def _update_one(self, model, op, how):
        g = np.random.default_rng(op['seed'])
        nx, ny, nz = model.shape
        sl = (slice(0, max(1, nx // 2)), slice(ny // 3, ny),
              slice(0, max(1, (2 * nz) // 3)))
        for name in ('property_x', 'property_y', 'property_z'):
            arr = getattr(model, name)
            if arr is None:
                continue
            cond = 10 ** g.uniform(-1.5, 1.0, arr[sl].shape)
            new = {'Conductivity': cond, 'Resistivity': 1 / cond,
                   'LgConductivity': np.log10(cond),
                   'LgResistivity': -np.log10(cond),
                   'LnConductivity': np.log(cond),
                   'LnResistivity': -np.log(cond)}[model.map.name]
            if how == 'array':
                arr[sl] = new
            else:
                full = np.array(arr)
                full[sl] = new
                setattr(model, name, full)

    def _supplied(self, st, op):
        import emg3d
        kind = op['field']
        grid, sf = st['grid'], st['sf']
        g = np.random.default_rng(op['fseed'])
        freq = st['cfg']['freq']
        if kind is None:
            return None
        if kind in ('prev', 'prev_perturbed'):
            if st['prev'] is None:
                return emg3d.Field(grid, frequency=freq)
            f = emg3d.Field(grid, st['prev'].copy(), frequency=freq)
            if kind == 'prev_perturbed':
                f.field[:] *= (1 + 1e-3 * g.standard_normal(f.field.size))
            return f
        if kind == 'zeros':
            return emg3d.Field(grid, frequency=freq)
        if kind == 'nofreq':
            f = emg3d.Field(grid, dtype=sf.field.dtype)
            return f
        scale = 1.0
        if st['prev'] is not None and np.isfinite(st['prev']).all():
            scale = max(np.abs(st['prev']).max(), 1e-30)
        v = g.standard_normal(sf.field.size) * scale   # non-zero boundary
        if kind == 'wrong_dtype':
            v = v.astype(float) if sf.field.dtype == complex else \
                v.astype(complex)
            return emg3d.Field(grid, v)
        if sf.field.dtype == complex:
            v = v + 1j * g.standard_normal(sf.field.size) * scale
        return emg3d.Field(grid, v.astype(sf.field.dtype), frequency=freq)

    def _invoke(self, ctx, st, op, efield, return_info):
        """One solver call under the op's scripted environment."""
        import emg3d
        import emg3d.solver as S
        import scipy.sparse.linalg as ssl
        cfg = st['cfg']
        kw = dict(cfg['solver_opts'])
        kw['return_info'] = return_info
        if efield is not None:
            kw['efield'] = efield
        if op.get('always_return'):
            kw['always_return'] = True
        env = {'fired': []}
        saved = {}
        # -- numeric break-down behind solver.smoothing
        num = op.get('numeric')
        if num:
            cnt = [0]
            where = num.get('where', 'smoothing')

            def poison(field_obj):
                cnt[0] += 1
                if cnt[0] == num['at']:
                    f = field_obj.field
                    if num['kind'] == 'scale':
                        f *= 1e3
                    else:
                        val = {'nan': np.nan, 'inf': np.inf,
                               'neginf': -np.inf}[num['kind']]
                        mask = oracle.interior_mask(
                            field_obj.grid.shape_cells)
                        f[np.argmax(mask)] = val
                    env['fired'].append(f"numeric/{where}/{num['kind']}")
            if where == 'smoothing':
                real_smoothing = S.smoothing

                def smoothing(model, sfield, efield, nu, lr_dir):
                    real_smoothing(model, sfield, efield, nu, lr_dir)
                    poison(efield)
                saved['smoothing'] = real_smoothing
                S.smoothing = smoothing
            elif where == 'prolongation':
                real_prol = S.prolongation

                def prolongation(efield, cefield, sc_dir):
                    real_prol(efield, cefield, sc_dir)
                    poison(efield)
                saved['prolongation'] = real_prol
                S.prolongation = prolongation
            else:
                real_restr = S.restriction

                def restriction(model, sfield, residual, sc_dir):
                    out = real_restr(model, sfield, residual, sc_dir)
                    poison(out[1])       # the coarse-grid source term
                    return out
                saved['restriction'] = real_restr
                S.restriction = restriction
        # -- Krylov adversary
        kry = op.get('krylov')
        if kry:
            for name in ('bicgstab', 'cgs', 'gcrotmk'):
                saved['ssl_' + name] = getattr(ssl, name)
                setattr(ssl, name, _adversary(getattr(ssl, name), kry, env))
        if op.get('via') == 'solve_source' and st.get('source') is not None:
            def call():
                return emg3d.solve_source(st['model'], st['source'],
                                          cfg['freq'], **kw)
        else:
            def call():
                return emg3d.solve(st['model'], st['sf'], **kw)
        try:
            return _outcome(call), env
        finally:
            for name in ('smoothing', 'prolongation', 'restriction'):
                if name in saved:
                    setattr(S, name, saved[name])
            for name in ('bicgstab', 'cgs', 'gcrotmk'):
                if 'ssl_' + name in saved:
                    setattr(ssl, name, saved['ssl_' + name])

    def _call(self, ctx, st, op):
        cfg = st['cfg']
        sf, grid, model = st['sf'], st['grid'], st['model']
        tol = cfg['solver_opts']['tol']
        if 'clock_jump' in op:
            ctx.clock.jump(op['clock_jump'])
            ctx.stats.fault('clock_jump')
        sup = self._supplied(st, op)
        sup_twin = None if sup is None else _clone(sup)
        out, env = self._invoke(ctx, st, op, sup, op['return_info'])
        for f in env['fired']:
            ctx.stats.fault(f)
        self._inputs_untouched(st)
        # the twin call (same inputs, same environment) gives the verdict
        # when the caller did not ask for it
        if op['return_info']:
            tout = out
        else:
            tout, _ = self._invoke(ctx, st, op, sup_twin, True)
        # ---- exceptions (input errors are not the solver's verdict)
        if out[0] == 'exc' or tout[0] == 'exc':
            if out[0] != tout[0] or out[1] != tout[1]:
                raise Violation('inplace_semantics',
                                f'return_info changes the outcome: '
                                f'{out[:2]} vs {tout[:2]}',
                                quantity='exception', op='solve')
            expected = (op['field'] == 'wrong_dtype' and out[1] ==
                        'ValueError')
            ctx.event('solve', {'exc': out[1], 'expected': expected})
            if not expected:
                ctx.stats.probe('exception/' + out[1])
                # an exception on a valid call is not a "reported failure"
                raise Violation(
                    'unreached_reported_success',
                    f'solve raised {out[1]}: {out[2]} for a valid '
                    f'configuration instead of reporting a verdict',
                    quantity='exception', op='solve')
            return
        # ---- which field does the caller hold?
        ret = out[1]
        info = tout[1] if op['return_info'] is False else out[1]
        if isinstance(info, tuple):
            info = info[1]
        held, how = self._held(op, sup, ret)
        theld = None
        if not op['return_info']:
            theld, _ = self._held(dict(op, return_info=True), sup_twin,
                                  tout[1])
        if held is None:
            raise Violation('inplace_semantics', how, quantity='return',
                            op='solve')
        e = np.asarray(held.field)
        if theld is not None and ahash(e) != ahash(np.asarray(theld.field)):
            raise Violation('inplace_semantics',
                            'the field differs between return_info=False '
                            'and return_info=True', quantity='field',
                            op='solve')
        # ---- the oracle
        s = st['ref_s']
        model = st['ref_model']
        n = float(np.linalg.norm(s))
        zero_src = n < 1e-300
        exit_, msg = int(info['exit']), info['exit_message']
        if e.dtype != s.dtype:
            raise Violation('success_dtype',
                            f'field dtype {e.dtype} != source dtype '
                            f'{s.dtype}', quantity='dtype', op='solve')
        if (exit_ == 0) != (msg == 'CONVERGED') or (exit_ == 1 and not msg):
            raise Violation('unreached_reported_success',
                            f'exit status {exit_} with message {msg!r}',
                            quantity='message', op='solve')
        if zero_src:
            ctx.stats.probe('zero_source')
            if exit_ != 0 or np.any(e != 0):
                raise Violation(
                    'zero_source',
                    f'zero source: exit={exit_}, the field the caller holds '
                    f'({how}) has max |e| = {np.abs(e).max():.3e}',
                    quantity='field', op='solve')
            ae = float(info['abs_error'])
            if ae != 0.0:
                raise Violation(
                    'info_mismatch',
                    f'zero source: the returned field is zero and solves the '
                    f'system exactly, but abs_error={ae!r} is reported',
                    quantity='abs_error', op='solve')
            ctx.event('solve', {'zero': True})
            st['prev'] = e.copy()
            return
        finite = bool(np.isfinite(e).all())
        r = np.inf
        if finite:
            r, _ = oracle.residual_norm(grid, model, s, e, sf.sval)
        ratio = r / (tol * n)
        if exit_ == 0:
            ctx.max_ratio = max(ctx.max_ratio, ratio)
            if not ratio < 1 + DELTA:
                raise Violation(
                    'success_residual',
                    f'exit=0 ({msg}) but ||s - A e|| = {r:.4e} is '
                    f'{ratio:.3f} x tol*||s|| (tol={tol}, field {how})',
                    quantity='residual', op='solve')
            bmax = oracle.boundary_max(grid.shape_cells, e)
            if bmax != 0.0:
                raise Violation('success_boundary',
                                f'exit=0 but tangential boundary values are '
                                f'not zero (max {bmax:.3e}; field {how})',
                                quantity='boundary', op='solve')
            ae, re_, rf = (float(info['abs_error']), float(info['rel_error']),
                           float(info['ref_error']))
            if abs(rf - n) > 1e-10 * n or \
                    abs(re_ - ae / rf) > 1e-10 * abs(re_) + 1e-300:
                raise Violation('info_mismatch',
                                f'ref_error={rf!r} (||s||={n!r}), rel_error='
                                f'{re_!r}, abs_error={ae!r} inconsistent',
                                quantity='ref_rel', op='solve')
            if abs(ae - r) > 1e-3 * r + 1e-13 * n:
                raise Violation(
                    'info_mismatch',
                    f'exit=0: reported abs_error {ae:.6e} does not describe '
                    f'the returned field, whose residual norm is {r:.6e} '
                    f'(sslsolver={cfg["solver_opts"]["sslsolver"]!r}, '
                    f'cycle={cfg["solver_opts"]["cycle"]!r})',
                    quantity='abs_error', op='solve')
        # verdict / probes
        verdict = msg.split(' ')[0] if msg else '?'
        ctx.stats.probe('verdict/' + verdict)
        log = info.get('log', '') or ''
        if 'NOTHING DONE' in log:
            ctx.stats.probe('nothing_done')
        first_try = exit_ == 0 and op['field'] is None and not env['fired']
        if not first_try:
            ctx.nontrivial = True
        ctx.stats.feature(cfg['solver_opts']['cycle'],
                          cfg['solver_opts']['sslsolver'], verdict,
                          op['field'], ','.join(env['fired']))
        ctx.event('solve', {'exit': exit_, 'msg': msg, 'field': ahash(e),
                            'it': [int(info['it_mg']), int(info['it_ssl'])],
                            'fired': env['fired']})
        st['prev'] = e.copy() if finite else None

    def _inputs_untouched(self, st):
        """The solver must not change the model or the source handed in."""
        m, r = st['model'], st['ref_model']
        for name in ('property_x', 'property_y', 'property_z', 'mu_r',
                     'epsilon_r'):
            a, b = getattr(m, name), getattr(r, name)
            if (a is None) != (b is None) or (
                    a is not None and ahash(a) != ahash(b)):
                raise Violation(
                    'input_mutated',
                    f'solve changed model.{name} of the model handed in '
                    f'(mapping {m.map.name}); later calls with the same '
                    f'object solve another system', quantity='model',
                    op='solve')
        if ahash(np.asarray(st['sf'].field)) != ahash(st['ref_s']):
            raise Violation('input_mutated',
                            'solve changed the source field handed in',
                            quantity='sfield', op='solve')

    def _held(self, op, sup, ret):
        """The Field object the caller ends up with, per the documentation."""
        ri = op['return_info']
        if sup is None:
            # fresh: the field is returned (with info if requested)
            f = ret[0] if ri else ret
            if not hasattr(f, 'field'):
                return None, f'no field returned for a fresh call: {ret!r}'
            return f, 'returned'
        if op.get('always_return'):
            f = ret[0] if ri else ret
            if not hasattr(f, 'field'):
                return None, 'always_return did not return the field'
            if ahash(f.field) != ahash(sup.field):
                return None, ('always_return: returned field differs from '
                              'the supplied (in-place) one')
            return sup, 'supplied, updated in place'
        # supplied, documented: nothing (or only info) is returned
        if ri and not isinstance(ret, dict):
            return None, f'supplied field + return_info: got {type(ret)}'
        if not ri and ret is not None:
            return None, f'supplied field: something was returned: {ret!r}'
        return sup, 'supplied, updated in place'


def _clone(f):
    import emg3d
    return emg3d.Field(f.grid, np.array(f.field, copy=True),
                       frequency=f._frequency)


def _outcome(fn):
    try:
        return ('ok', fn())
    except _Abort:
        raise
    except Exception as e:      # noqa
        return ('exc', type(e).__name__, str(e)[:200])


def _adversary(real, plan, env):
    """Contract-abiding adversary around a SciPy Krylov solver."""
    from scipy.sparse.linalg import LinearOperator

    def solver(A, b, x0=None, **kw):
        cb = kw.pop('callback', None)
        state = {'ncb': 0, 'nmv': 0, 'last': None}

        def callback(x):
            state['ncb'] += 1
            state['last'] = np.array(x, copy=True)
            sup = plan['suppress']
            if sup == 'all' or (sup == 'odd' and state['ncb'] % 2):
                env['fired'].append('krylov/cb_suppressed') \
                    if 'krylov/cb_suppressed' not in env['fired'] else None
                return
            if cb is not None:
                cb(x)

        def matvec(v):
            state['nmv'] += 1
            if plan['abort_at'] and state['nmv'] > plan['abort_at']:
                raise _Abort()
            return A.matvec(v)
        A2 = LinearOperator(shape=A.shape, dtype=A.dtype, matvec=matvec)
        try:
            x, i = real(A2, b, x0=x0, callback=callback, **kw)
        except _Abort:
            env['fired'].append(f"krylov/abort/{plan['code']}")
            x = state['last'] if state['last'] is not None else \
                np.array(x0, copy=True)
            return x, plan['code']
        return x, i
    return solver
