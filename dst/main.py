"""Entry point: check <id> [--tier quick|thorough] [--replay file]."""
import argparse
import os
import sys


def get_machine(pid):
    if pid == 'C11':
        from dst.m_c11 import C11
        return C11()
    if pid == 'C13':
        from dst.m_c13 import C13
        return C13()
    if pid == 'C12':
        from dst.m_c12 import C12
        return C12()
    if pid == 'C01':
        from dst.m_c01 import C01
        return C01()
    if pid == 'C05':
        from dst.m_c05 import C05
        return C05()
    if pid == 'C17':
        from dst.m_c17 import C17
        return C17()
    if pid == 'C18':
        from dst.m_c18 import C18
        return C18()
    raise SystemExit(f'unknown property {pid}')


def main(argv=None):
    ap = argparse.ArgumentParser()
    ap.add_argument('pid')
    ap.add_argument('--tier', default=os.environ.get('VERIF_TIER', 'quick'),
                    choices=['quick', 'thorough'])
    ap.add_argument('--replay')
    ap.add_argument('--one', type=int, help='execute a single run index')
    a = ap.parse_args(argv)
    from dst import engine, runner
    seed = int(os.environ.get('VERIF_SEED', engine.DEFAULT_SEED))
    if a.pid == 'selftest':
        from dst import selftest
        only = os.environ.get('VERIF_SELFTEST_ONLY')
        return selftest.main(seed, only.split(',') if only else None)
    m = get_machine(a.pid)
    if a.replay:
        return runner.do_replay(m, a.replay)
    if a.one is not None:
        import json
        m.warmup()
        rs, case = runner.gen_case(m, seed, a.tier, a.one)
        print(json.dumps(case, indent=1))
        res = runner.execute(m, case, rs, keep_trace=True)
        for e in res.pop('trace'):
            print(e)
        res.pop('tape')
        print(json.dumps(res, indent=1))
        return 0
    return runner.check(m, a.tier, seed)


if __name__ == '__main__':
    sys.exit(main())
