"""C11 — survey results do not depend on worker count, scheduling or
file-based mode.

Real: Simulation, Survey, process_map, _multiprocessing.solve/layered, io,
solver.  Simulated: the process pool (both back ends), worker isolation,
clock, I/O fault layer.  Oracles: (1) attribution — every slot holds the
solution of its own task (bit-identical to a direct solver call that never
touches Simulation/process_map; converged slots also satisfy their own system
by the independent operator); (2) schedule independence — everything is
bit-identical to a sequential in-memory reference with the same history.
"""
import copy
import os
import warnings

import numpy as np

from dst import gen, oracle, simpool, iofault, clock as vclock
from dst.engine import Violation, ahash
from dst.machine import Machine, quiet

import emg3d._multiprocessing as _mpmod      # noqa: E402
_REAL_SOLVE = _mpmod.solve

OPS = ['compute', 'compute', 'get_efield', 'gradient', 'misfit', 'jvec',
       'clean_compute', 'get_hfield', 'jtvec']


class C11(Machine):
    pid = 'C11'
    rule = ("one run = one generated survey/model/solver configuration x "
            "(max_workers, back end, memory|files, schedule policy, pickling "
            "time) x a history of 2-6 operations, optionally with <=2 "
            "injected faults; non-trivial = a simulated pool ran >=2 tasks "
            "with completion order != submission order, or file-based "
            "hand-over was used, or a fault fired; distinct = distinct trace "
            "digest (operations, observations as byte hashes, virtual times)")
    components_real = [
        'emg3d.simulations.Simulation', 'emg3d.surveys.Survey',
        'emg3d._multiprocessing.process_map/solve/layered', 'emg3d.io',
        'emg3d.solver + numba kernels', 'h5py/HDF5', 'tqdm process_map',
        'concurrent.futures.Executor.map (inherited)', 'scipy Krylov solvers',
        'empymod (layered stratum)', 'discretize (oracle)']
    components_stub = [
        'ProcessPoolExecutor -> SimExecutor (virtual workers, seeded '
        'completion order, pickle boundary)', 'wall clock -> VirtualClock',
        'fault layer in front of h5py.File/create_dataset']
    assumptions = [
        'tasks are atomic with respect to each other in the simulated pool',
        'worker-global module state is not isolated from the parent '
        '(covered by the real-pool validation stratum of the thorough tier)',
        'the independent operator (discretize) is trusted',
    ]
    required_seams = ['submit', 'executor_created']

    # ---------------------------------------------------------------- plan
    def plan(self, tier):
        if tier == 'quick':
            return {'runs': 480, 'budget_s': 700, 'det_runs': 3,
                    'run_timeout': 180, 'shrink_s': 150}
        return {'runs': 12000, 'budget_s': 3000, 'det_runs': 5,
                'run_timeout': 300, 'shrink_s': 300}

    # ---------------------------------------------------------------- gen
    def gen(self, rng, tier, index):
        layered = rng.random() < 0.12
        grid = gen.gen_grid(rng, 4, 8)
        if layered:
            model = gen.gen_model(rng, cases=['isotropic', 'VTI'])
            survey = gen.gen_survey(rng, grid, nsrc=(1, 5), nrec=(1, 3),
                                    nfreq=(1, 3),
                                    src_kinds=('dipole', 'point'),
                                    rec_kinds=('e', 'm'))
        else:
            model = gen.gen_model(rng)
            survey = gen.gen_survey(rng, grid, nsrc=(1, 4), nrec=(1, 3),
                                    nfreq=(1, 3))
        ntasks = len(survey['sources']) * (1 if layered else
                                           len(survey['frequencies']))
        sopts = gen.gen_solver_opts(rng)
        gridding = 'same'
        grid2 = None
        if not layered and rng.random() < 0.2:
            gridding = 'input'
            grid2 = gen.gen_grid(rng, 4, 8)
            grid2['origin'] = grid['origin']
            # same extent as the model grid
            for d in 'xyz':
                ext = sum(grid['h' + d])
                s = sum(grid2['h' + d])
                grid2['h' + d] = [round(v * ext / s, 6) for v in
                                  grid2['h' + d]]
        if not layered and gridding == 'same' and rng.random() < (
                0.2 if tier == 'thorough' else 0.08):
            # automatic gridding, bounded to 8..32 cells per direction
            gridding = rng.choice(['single', 'frequency', 'source', 'both'])
            # automatic grids have up to 32^3 cells: keep the solver cheap
            sopts['maxit'] = min(sopts['maxit'], 3)
            if sopts.get('cycle', 'F') is None:
                sopts['cycle'] = 'V'
            sopts.pop('tol_gradient', None)
        mw = rng.choice([1, 2, 2, 3, 3, 4, 5, 8, 16, max(2, ntasks),
                         max(2, ntasks - 1), ntasks + 1])
        if tier == 'thorough':
            mw = 1 + (index % 16)
        config = {
            'grid': grid, 'model': model, 'survey': survey,
            'solver_opts': sopts, 'gridding': gridding, 'grid2': grid2,
            'layered': layered,
            'recint': rng.choice(['linear', 'linear', 'cubic']),
            'max_workers': mw,
            'backend': rng.choice(['tqdm', 'tqdm', 'plain']),
            'bar': rng.random() < 0.3,
            'file_dir': (not layered) and rng.random() < 0.45,
            # directory names with dots (~/.cache/..., run.v2) are legal
            'dir_name': rng.choice(['files', 'files', 'fi.les.v2',
                                    '.cache']),
            'policy': rng.choice(simpool.POLICIES),
            'late_pickle': rng.random() < 0.5,
        }
        nops = rng.randint(2, 6 if tier == 'thorough' else 5)
        ops = []
        faulty = rng.random() < 0.4
        nfaults = 0
        for i in range(nops):
            kind = rng.choice(OPS)
            if layered and kind in ('get_efield', 'get_hfield', 'jvec',
                                    'jtvec'):
                kind = rng.choice(['compute', 'gradient', 'misfit'])
            op = {'op': kind}
            if kind in ('get_efield', 'get_hfield'):
                op['s'] = rng.randrange(len(survey['sources']))
                op['f'] = rng.randrange(len(survey['frequencies']))
            if kind in ('jvec', 'jtvec'):
                op['vseed'] = rng.randint(0, 10**6)
            if faulty and nfaults < 2 and rng.random() < 0.6:
                self._gen_fault(rng, op, config, ntasks)
                op['giveup'] = rng.random() < 0.4
                nfaults += 1
            ops.append(op)
        return {'config': config, 'ops': ops}

    def _gen_fault(self, rng, op, config, ntasks):
        kinds = ['worker_crash', 'task_exception', 'clock_jump']
        if config['max_workers'] == 1:
            kinds = ['clock_jump']
        if config['file_dir']:
            kinds += ['io', 'io', 'decoy', 'worker_crash']
        k = rng.choice(kinds)
        task = rng.randrange(max(1, ntasks))
        pool = rng.choice([0, 0, 1])
        if k == 'worker_crash':
            pts = ['before_run', 'after_run']
            if config['file_dir']:
                pts += ['before_save', 'mid_save', 'torn_save']
            op['faults'] = [{'kind': 'worker_crash', 'pool': pool,
                             'task': task, 'point': rng.choice(pts),
                             'k': rng.randint(1, 6)}]
        elif k == 'task_exception':
            op['faults'] = [{'kind': 'task_exception', 'pool': pool,
                             'task': task}]
        elif k == 'clock_jump':
            op['clock_jump'] = rng.choice([-3600.0, 86400.0, -1e6])
        elif k == 'io':
            site = rng.choice(['parent_in', 'worker_in', 'worker_out',
                               'worker_out', 'parent_out'])
            f = {'kind': rng.choice(['enospc', 'eio']), 'k': rng.randint(1, 15)}
            if site == 'parent_in':
                f.update(who='parent', match='field_', nth=task,
                         event=rng.choice(['open_w', 'dataset', 'close_w']))
            elif site == 'worker_in':
                f.update(who='worker', match='field_', nth=task, kind='eio',
                         event='open_r')
            elif site == 'worker_out':
                f.update(who='worker', match='_out', nth=task,
                         event=rng.choice(['open_w', 'dataset', 'dataset',
                                           'close_w']))
            else:
                f.update(who='parent', match='_out', kind='eio',
                         nth=rng.randrange(max(1, 2 * ntasks)),
                         event='open_r')
            op['iofaults'] = [f]
        elif k == 'decoy':
            op['decoys'] = [{'seed': rng.randint(0, 10**6),
                             'what': rng.choice(['out', 'in', 'both'])}]

    def simplify(self, case):
        c = case['config']
        out = []

        def var(**kw):
            n = copy.deepcopy(case)
            n['config'].update(kw)
            return n
        if c['policy'] != 'reverse':
            out.append(var(policy='reverse'))
        if c['bar']:
            out.append(var(bar=False))
        if c['late_pickle']:
            out.append(var(late_pickle=False))
        if c['backend'] != 'plain':
            out.append(var(backend='plain'))
        if c['file_dir']:
            out.append(var(file_dir=False))
        if c.get('dir_name', 'files') != 'files':
            out.append(var(dir_name='files'))
        if c['gridding'] != 'same':
            out.append(var(gridding='same', grid2=None))
        if c['gridding'] in ('frequency', 'source', 'both'):
            out.append(var(gridding='single'))
        if c['max_workers'] > 2:
            out.append(var(max_workers=2))
        s = c['survey']
        for key in ('sources', 'receivers', 'frequencies'):
            if len(s[key]) > 1:
                for j in range(len(s[key])):
                    n = copy.deepcopy(case)
                    del n['config']['survey'][key][j]
                    # keep op indices valid
                    for op in n['ops']:
                        if key == 'sources' and 's' in op:
                            op['s'] = min(op['s'], len(s[key]) - 2)
                        if key == 'frequencies' and 'f' in op:
                            op['f'] = min(op['f'], len(s[key]) - 2)
                    out.append(n)
        so = c['solver_opts']
        for k, v in (('sslsolver', False), ('semicoarsening', False),
                     ('linerelaxation', False), ('verb', 0)):
            if so.get(k) != v:
                n = copy.deepcopy(case)
                n['config']['solver_opts'][k] = v
                out.append(n)
        if c['model']['case'] != 'isotropic':
            n = copy.deepcopy(case)
            n['config']['model']['case'] = 'isotropic'
            out.append(n)
        return out

    # ---------------------------------------------------------------- build
    def _build(self, cfg, scratch, reference):
        import emg3d
        grid = gen.build_grid(cfg['grid'])
        model = gen.build_model(cfg['model'], grid)
        survey = gen.build_survey(cfg['survey'])
        kw = dict(gridding=cfg['gridding'],
                  solver_opts=dict(cfg['solver_opts']),
                  receiver_interpolation=cfg['recint'],
                  max_workers=1 if reference else cfg['max_workers'],
                  tqdm_opts={'disable': not cfg['bar'] or reference,
                             'file': _Sink()},
                  layered=cfg['layered'], name='c11')
        if cfg['gridding'] == 'input':
            kw['gridding_opts'] = gen.build_grid(cfg['grid2'])
        elif cfg['gridding'] != 'same':
            g = cfg['grid']
            kw['gridding_opts'] = {
                'domain': {d: [g['origin'][i] + 0.25 * sum(g['h' + d]),
                               g['origin'][i] + 0.75 * sum(g['h' + d])]
                           for i, d in enumerate('xyz')},
                'min_width_limits': [100.0, 300.0], 'max_buffer': 1500.0,
                'stretching': [1.0, 1.5], 'cell_numbers': [8, 16, 32],
                'lambda_factor': 0.5}
        if cfg['file_dir'] and not reference:
            kw['file_dir'] = os.path.join(scratch, cfg.get('dir_name', 'files'))
        with warnings.catch_warnings():
            warnings.simplefilter('ignore')
            sim = emg3d.Simulation(survey, model, **kw)
        return sim

    # ---------------------------------------------------------------- run
    def run(self, ctx, case):
        import emg3d
        import emg3d._multiprocessing as mp
        cfg = case['config']
        ctx.pool = simpool.PoolSim(ctx, cfg['policy'], cfg['late_pickle'])
        ctx.io = iofault.IOSim(ctx, ctx.pool)
        with vclock.installed(ctx.clock, ctx.stats), quiet():
            sim = self._build(cfg, ctx.scratch, False)
            ref = self._build(cfg, ctx.scratch, True)
            ctx.event('build', {'shape': list(sim.survey.shape),
                                'mw': cfg['max_workers']})
            direct = {}    # attribution oracle state: (s, f) -> Field
            st = {'sim': sim, 'ref': ref, 'cfg': cfg, 'direct': direct,
                  'converged_once': False}
            for i, op in enumerate(case['ops']):
                ctx.opi = i
                self._step(ctx, st, op)
            # final: slot attribution of everything the object holds
            self._attribution(ctx, st, 'final')
        # non-triviality and reach
        orders = [o for o in ctx.all_orders if len(o[2]) >= 2]
        shuffled = any(o[2] != sorted(o[2]) for o in orders)
        if shuffled:
            ctx.stats.probe('completion_order_differs')
        if any(len(o[2]) > o[1] for o in orders):
            ctx.stats.probe('more_tasks_than_workers')
        ctx.nontrivial = bool(shuffled or cfg['file_dir'] or
                              ctx.stats.faults)
        for o in orders[:3]:
            ctx.stats.feature(cfg['max_workers'], cfg['backend'],
                              'files' if cfg['file_dir'] else 'mem',
                              ''.join(str(min(t, 9)) for t in o[2][:8]))

    # -- one operation on the simulated object and on the reference --------
    def _apply(self, sim, op, cfg):
        kind = op['op']
        srcs = list(sim.survey.sources.keys())
        freqs = list(sim.survey.frequencies.keys())
        if kind == 'compute':
            sim.compute()
            return None
        if kind == 'clean_compute':
            sim.clean('computed')
            sim.compute()
            return None
        if kind == 'get_efield':
            return sim.get_efield(srcs[op['s'] % len(srcs)],
                                  freqs[op['f'] % len(freqs)]).field.copy()
        if kind == 'get_hfield':
            return sim.get_hfield(srcs[op['s'] % len(srcs)],
                                  freqs[op['f'] % len(freqs)]).field.copy()
        if kind == 'misfit':
            return np.array(float(sim.misfit))
        if kind == 'gradient':
            return np.array(sim.gradient)
        if kind == 'jvec':
            g = np.random.default_rng(op['vseed'])
            shape = sim.model.shape
            n = {'isotropic': 1, 'HTI': 2, 'VTI': 2, 'triaxial': 3}[
                sim.model.case]
            v = g.standard_normal((n, *shape))
            if n == 1 and op['vseed'] % 2:
                v = v[0]
            return np.array(sim.jvec(v))
        if kind == 'jtvec':
            g = np.random.default_rng(op['vseed'])
            w = (g.standard_normal(sim.survey.shape) +
                 1j * g.standard_normal(sim.survey.shape))
            return np.array(sim.jtvec(w))
        raise ValueError(kind)

    def _snapshot(self, sim):
        """Byte-level snapshot of what the object reports (no recompute)."""
        out = {'_syn_raw': sim.data.synthetic.data.copy(),
               '_jvec_raw': sim.data['jvec'].data.copy()
               if 'jvec' in sim.data else None,
               'synthetic': ahash(sim.data.synthetic.data),
               'misfit': None if sim._misfit is None else
               ahash(np.asarray(sim._misfit)),
               'gradient': None if sim._gradient is None else
               ahash(sim._gradient)}
        if 'jvec' in sim.data:
            out['jvecdata'] = ahash(sim.data['jvec'].data)
        if not sim.layered:
            for which in ('efield', 'bfield'):
                d = getattr(sim, f'_dict_{which}', None)
                if d is None:
                    continue
                for s in d:
                    for f in d[s]:
                        try:
                            v = sim._dict_get(which, s, f)
                        except Exception as e:      # noqa (file gone, ...)
                            v = None
                            out[f'{which}/{s}/{f}/err'] = type(e).__name__
                        if v is not None and not hasattr(v, 'field'):
                            out[f'{which}/{s}/{f}'] = \
                                'garbage:' + type(v).__name__
                            continue
                        out[f'{which}/{s}/{f}'] = None if v is None else \
                            ahash(v.field)
                        if v is not None:
                            try:
                                info = sim._dict_get(which + '_info', s, f)
                                out[f'{which}/{s}/{f}/info'] = None if info \
                                    is None else [
                                        int(info['exit']), int(info['it_mg']),
                                        int(info['it_ssl']),
                                        repr(float(info['abs_error']))]
                            except Exception as e:      # noqa (stale file)
                                out[f'{which}/{s}/{f}/info'] = \
                                    'ERR:' + type(e).__name__
        return out

    def _step(self, ctx, st, op):
        import emg3d._multiprocessing as mp
        sim, ref, cfg = st['sim'], st['ref'], st['cfg']
        kind = op['op']
        pre = self._snapshot(sim)
        if kind == 'clean_compute':
            st['direct'].clear()      # fields are recomputed from scratch
            if st.get('tainted') and 'jvec' in sim.data:
                # clean() keeps data['jvec']: what was computed while the
                # object was tainted stays incomparable until the next jvec
                st.setdefault('skip', set()).add('jvecdata')
            st['tainted'] = False
        if kind == 'jvec' and not st.get('tainted'):
            st.setdefault('skip', set()).discard('jvecdata')
        # decoy files: what a crashed earlier run could have left behind
        for d in op.get('decoys', []):
            if cfg['file_dir']:
                self._decoys(ctx, sim, d)
        if 'clock_jump' in op:
            ctx.clock.jump(op['clock_jump'])
            ctx.stats.fault('clock_jump')
        # -- the operation on the simulated system (with faults)
        ctx.pool.new_op(op.get('faults', ()))
        ctx.io.new_op(op.get('iofaults', ()))
        err, val = None, None
        with simpool.installed(ctx.pool, cfg['backend'], cfg['bar']), \
                iofault.installed(ctx.io):
            try:
                val = self._apply(sim, op, cfg)
            except Exception as e:      # noqa
                err = e
        self._collect_orders(ctx)
        nfired = sum(1 for f in ctx.pool.faults if f.get('fired')) + \
            sum(1 for f in ctx.io.armed if f.get('fired'))
        # -- the same operation on the sequential in-memory reference
        rerr, rval = None, None
        saved = mp.tqdm
        mp.tqdm = None
        try:
            rval = self._apply(ref, op, cfg)
        except Exception as e:      # noqa
            rerr = e
        finally:
            mp.tqdm = saved
        ctx.event(kind, {'err': type(err).__name__ if err else None,
                         'val': None if val is None else ahash(val),
                         'fired': nfired})
        if err is not None and rerr is None:
            if nfired == 0:
                raise Violation(
                    'schedule_dependence',
                    f'{kind} raised {type(err).__name__}: {err} in the '
                    f'simulated execution mode but not sequentially',
                    quantity='exception', op=kind)
            # (a) what the object *reports* (responses, misfit, gradient,
            # J v) is old, new or NaN - never anything else.  Field slots
            # are compared too in memory mode; in file-based mode they are
            # files that the workers of the failed attempt may legitimately
            # have overwritten (see `tainted` below).
            post = self._snapshot(sim)
            refsnap = self._snapshot(ref)
            for k, v in post.items():
                if k.endswith(('/info', '/err')) or k.startswith('_'):
                    continue
                if cfg['file_dir'] and k.startswith(('efield/', 'bfield/')):
                    continue
                if v is not None and v != pre.get(k) and \
                        v != refsnap.get(k):
                    raw = {'synthetic': '_syn_raw',
                           'jvecdata': '_jvec_raw'}.get(k)
                    if raw and _old_new_nan(post[raw], pre.get(raw),
                                            refsnap.get(raw)):
                        continue
                    raise Violation(
                        'garbage_after_fault',
                        f'after a failed {kind} ({type(err).__name__}) '
                        f'{k} is neither the old nor the new value',
                        quantity=k.split('/')[0], op=kind)
            # In file-based mode a failed attempt leaves files behind and
            # the parent may have stored part of the results before the
            # failure: slots may have advanced (warm start) or point to a
            # file that the dying worker left incomplete.  The object is then
            # no longer comparable bit-wise with a reference that performed
            # the operation once.  Narrow relaxation: from here to the next
            # clean() only the self-consistency oracles apply.
            if cfg['file_dir']:
                st['tainted'] = True
                ctx.stats.probe('tainted_by_failed_attempt')
            if op.get('giveup'):
                # The caller gives the operation up instead of repeating it,
                # resets the object with the documented clean('computed')
                # and carries on: nothing of the failed attempt may survive
                # (e.g. a tolerance or flag switched for the operation).
                sim.clean('computed')
                ref.clean('computed')
                st['direct'].clear()
                st['tainted'] = False
                st['last_compute_snap'] = None
                st.setdefault('skip', set()).add('jvecdata')
                ctx.stats.probe('gave_up_after_fault')
                ctx.event(kind + '/giveup')
                return
            # (b) bounded liveness: once faults stop, the operation succeeds
            # at the first retry; if stale files are in the way (file-based
            # mode) after the documented reset, clean('computed').
            ctx.pool.new_op(())
            ctx.io.new_op(())
            with simpool.installed(ctx.pool, cfg['backend'], cfg['bar']), \
                    iofault.installed(ctx.io):
                try:
                    val = self._apply(sim, op, cfg)
                    err = None
                except Exception as e:      # noqa
                    if not cfg['file_dir']:
                        raise Violation(
                            'no_recovery',
                            f'{kind} still fails after faults stopped: '
                            f'{type(e).__name__}: {e}', quantity='retry',
                            op=kind)
                    ctx.stats.probe('retry_needed_clean')
                    try:
                        sim.clean('computed')
                        ref.clean('computed')
                        st['direct'].clear()
                        st['tainted'] = False
                        st['last_compute_snap'] = None
                        val = self._apply(sim, op, cfg)
                        err = None
                    except Exception as e2:      # noqa
                        if type(e2) is type(rerr_after_clean(self, ref, op,
                                                             cfg)):
                            return
                        raise Violation(
                            'no_recovery',
                            f'{kind} still fails after faults stopped and '
                            f"clean('computed'): {type(e2).__name__}: {e2}",
                            quantity='retry', op=kind)
                    # reference: same history from the clean state
                    rval = apply_ref(self, ref, op, cfg)
            self._collect_orders(ctx)
            ctx.stats.probe('recovered_after_fault')
            ctx.event(kind + '/retry', None if val is None else ahash(val))
        if err is None and rerr is not None:
            raise Violation(
                'schedule_dependence',
                f'{kind} raised {type(rerr).__name__}: {rerr} sequentially '
                f'but not in the simulated execution mode',
                quantity='exception', op=kind)
        if err is not None and rerr is not None:
            if type(err) is not type(rerr):
                raise Violation(
                    'schedule_dependence',
                    f'{kind}: different exceptions {type(err).__name__} / '
                    f'{type(rerr).__name__}', quantity='exception', op=kind)
            return
        if st.get('tainted'):
            self._attribution(ctx, st, kind)
            return
        # -- schedule independence: bit identity with the reference
        if (val is None) != (rval is None) or (
                val is not None and ahash(val) != ahash(rval)):
            raise Violation(
                'schedule_dependence',
                f'{kind}: returned value differs from the sequential '
                f'in-memory reference: {_diff(val, rval)}',
                quantity=kind, op=kind)
        a, b = self._snapshot(sim), self._snapshot(ref)
        for k in sorted(set(a) | set(b)):
            if k.startswith('_') or k in st.get('skip', ()):
                continue
            if a.get(k) != b.get(k):
                raise Violation(
                    'schedule_dependence',
                    f'after {kind}: {k} differs from the sequential '
                    f'in-memory reference ({a.get(k)} vs {b.get(k)}; '
                    f'mw={cfg["max_workers"]} files={cfg["file_dir"]})',
                    quantity=k.split('/')[0], op=kind)
        # -- repeat changes nothing (only claimed when everything converged)
        if kind == 'compute' and not sim.layered:
            conv = all(v[0] == 0 for k, v in a.items()
                       if k.startswith('efield/') and k.endswith('/info')
                       and v is not None)
            if conv and st.get('last_compute_snap') is not None and \
                    st['last_compute_conv']:
                for k, v in st['last_compute_snap'].items():
                    if k.startswith('efield/') and not k.endswith('/info') \
                            and a.get(k) != v:
                        raise Violation(
                            'repeat_changes',
                            f'repeating compute() changed {k}',
                            quantity='efield', op=kind)
                if a['synthetic'] != st['last_compute_snap']['synthetic']:
                    raise Violation('repeat_changes',
                                    'repeating compute() changed the '
                                    'synthetic data', quantity='synthetic',
                                    op=kind)
                ctx.stats.probe('repeat_checked')
            st['last_compute_snap'] = a
            st['last_compute_conv'] = conv
        if kind == 'clean_compute':
            st['last_compute_snap'] = None
        # -- attribution
        self._attribution(ctx, st, kind)

    def _collect_orders(self, ctx):
        if not hasattr(ctx, 'all_orders'):
            ctx.all_orders = []
        for ex in ctx.pool.executors:
            if ex.order:
                ctx.all_orders.append((ex.idx, ex.nw, list(ex.order)))
        ctx.pool.executors = []

    # -- oracle 1: attribution ---------------------------------------------
    def _attribution(self, ctx, st, kind):
        import emg3d
        sim, cfg, direct = st['sim'], st['cfg'], st['direct']
        if sim.layered:
            return
        srcs, freqs = sim.survey.sources, sim.survey.frequencies
        for s in srcs:
            for f in freqs:
                ef = sim._dict_get('efield', s, f)
                if ef is None:
                    continue
                h = ahash(ef.field)
                key = (s, f)
                if direct.get(key, {}).get('seen') == h:
                    continue      # unchanged since last verified
                try:
                    info = sim._dict_get('efield_info', s, f)
                except Exception:      # noqa - incomplete file (tainted)
                    info = None
                if info is None or 'exit' not in info:
                    if st.get('tainted'):
                        continue
                    raise Violation('slot_attribution',
                                    f'slot ({s},{f}) holds a field but no '
                                    f'solver info', quantity='efield_info',
                                    op=kind)
                grid = sim.get_grid(s, f)
                model = sim.model.interpolate_to_grid(grid)
                if st.get('tainted'):
                    self._tainted_now = True
                    try:
                        self._selfconsistent(ctx, sim, s, f, ef, info, grid,
                                             model, kind)
                    finally:
                        self._tainted_now = False
                    continue
                opts = dict(sim.solver_opts)
                opts['tol'] = sim.tol_forward
                opts.pop('return_info', None)
                prev = direct.get(key, {}).get('field')
                mine, minfo = emg3d.solve_source(
                    model=model, source=srcs[s], frequency=freqs[f],
                    efield=None if prev is None else prev.copy(),
                    return_info=True, always_return=True, **opts)
                if ahash(mine.field) != h:
                    raise Violation(
                        'slot_attribution',
                        f'slot ({s},{f}) does not hold the solution of its '
                        f'own task (direct solver call differs: '
                        f'{_diff(ef.field, mine.field)})',
                        quantity='efield', op=kind)
                if int(minfo['exit']) != int(info['exit']) or \
                        minfo['it_mg'] != info['it_mg']:
                    raise Violation(
                        'slot_attribution',
                        f'solver info of slot ({s},{f}) is not the info of '
                        f'its own task', quantity='efield_info', op=kind)
                self._selfconsistent(ctx, sim, s, f, ef, info, grid, model,
                                     kind)
                direct[key] = {'seen': h, 'field': mine}
                ctx.stats.probe('attribution_checked')

    def _selfconsistent(self, ctx, sim, s, f, ef, info, grid, model, kind):
        import emg3d
        srcs, freqs = sim.survey.sources, sim.survey.frequencies
        # converged: must satisfy its own system (independent operator)
        if int(info.get('exit', 1)) == 0:
            # Attribution, not certification: a field that belongs to
            # another task misses its own system by O(||s||), whereas "is
            # the solver's success true?" is property C01's business (and a
            # source in an outermost cell of the computational grid is
            # outside C01's quantifier).  Free edges only; gross threshold.
            sf = emg3d.get_source_field(grid, srcs[s], freqs[f])
            A = oracle.operator(grid, model, sf.sval)
            mask = oracle.interior_mask(grid.shape_cells)
            r = float(np.linalg.norm((sf.field - A @ ef.field)[mask]))
            n = float(np.linalg.norm(sf.field))
            if not r <= 0.3 * n:
                raise Violation(
                    'slot_attribution',
                    f'slot ({s},{f}) reports success but its field does not '
                    f'solve its own system at all: ||s - A e|| = {r:.3e}, '
                    f'||s|| = {n:.3e}', quantity='residual', op=kind)
            if r > 1.5 * sim.tol_forward * n:
                ctx.stats.probe('success_above_tolerance_(C01)')
            ctx.stats.probe('attribution_residual_checked')
        # responses sampled from that very field
        resp = sim._get_responses(s, f, ef)
        got = sim.data.synthetic.loc[s, :, f].data
        if getattr(self, '_tainted_now', False) and np.isnan(got).all():
            # after a failed attempt in file-based mode a slot may already
            # point to its (valid) result file while the responses were not
            # stored yet: "nothing" is an allowed state there
            return
        if ahash(resp) != ahash(got):
            raise Violation(
                'slot_attribution',
                f'data.synthetic[{s},:,{f}] is not the field of that slot '
                f'sampled at the receivers', quantity='synthetic', op=kind)

    def _decoys(self, ctx, sim, d):
        """Stale files of the right names holding wrong fields."""
        import emg3d
        from dst.iofault import _real_File
        g = np.random.default_rng(d['seed'])
        os.makedirs(sim.file_dir, exist_ok=True)
        n = 0
        for s in sim.survey.sources:
            for f in sim.survey.frequencies:
                grid = sim.get_grid(s, f)
                bad = emg3d.Field(grid, frequency=sim.survey.frequencies[f])
                bad.field[:] = g.standard_normal(bad.field.size) * 1e-9
                for what in ('efield', 'bfield', 'gfield'):
                    base = os.path.join(sim.file_dir, f'{what}_{s}_{f}')
                    if d['what'] in ('out', 'both') and \
                            not os.path.exists(base + '_out.h5'):
                        emg3d.save(base + '_out.h5', efield=bad,
                                   info={'exit': 0, 'exit_message':
                                         'CONVERGED', 'it_mg': 1,
                                         'it_ssl': 0, 'abs_error': 0.0},
                                   verb=0)
                        n += 1
        ctx.stats.fault('decoy_files')
        ctx.stats.probe('decoy_files_written', n)


    def summarise(self, feats):
        """Reach measure: (max_workers, back end, mode) cells and distinct
        completion orders of pools with <= 4 tasks (33 exist: 1+2+6+24)."""
        cells, orders = set(), set()
        for f in feats:
            mw, be, mode, order = f.split('/')
            cells.add((int(mw), be, mode))
            if len(order) <= 4:
                orders.add(order)
        mws = sorted({c[0] for c in cells})
        return {'cells_mw_backend_mode_hit': len(cells),
                'cells_possible': 16 * 2 * 2,
                'max_workers_values_hit': mws,
                'distinct_completion_orders_le4_tasks': len(orders),
                'completion_orders_le4_possible': 32}

    # -- stub validation on the real pool (thorough tier) -------------------
    def post_batch(self, tier, seed, log):
        """Re-run a sample of fault-free workloads on the *real*
        ProcessPoolExecutor with adversarial sleeps and compare bytes with
        the sequential reference.  Not a simulated run: its nondeterminism
        is not controlled; it validates the stub's fidelity and covers the
        worker-global-state gap.  A mismatch is a harness error."""
        from dst import runner
        n = int(os.environ.get('VERIF_REALPOOL',
                               12 if tier == 'thorough' else 0))
        done, errs = 0, []
        for i in range(4000):
            if done >= n:
                break
            rs, case = runner.gen_case(self, seed, 'thorough', i)
            cfg = case['config']
            if cfg['max_workers'] < 2 or cfg['layered']:
                continue
            for op in case['ops']:
                for k in ('faults', 'iofaults', 'decoys', 'clock_jump'):
                    op.pop(k, None)
            st, out = runner.run_isolated(
                lambda: self._real_pool_run(case, rs), 600)
            done += 1
            if st != 'ok':
                errs.append(f'real-pool run {i} crashed: {out}')
            elif out:
                errs.append(f'real-pool run {i}: {out}')
        log(f"  real-pool validation: {done} workloads, {len(errs)} "
            f"mismatches")
        return {'real_pool_validation': {'workloads': done,
                                         'mismatches': len(errs)}}, errs

    def _real_pool_run(self, case, rs):
        import tempfile
        import shutil
        import emg3d._multiprocessing as mp
        from dst.engine import Ctx
        cfg = case['config']
        scratch = tempfile.mkdtemp(prefix='dst-C11real-')
        ctx = Ctx('C11', rs, scratch=scratch)
        real_solve, real_tqdm = mp.solve, mp.tqdm
        try:
            with vclock.installed(ctx.clock, ctx.stats), quiet():
                sim = self._build(cfg, scratch, False)
                ref = self._build(cfg, scratch, True)
                for op in case['ops']:
                    mp.solve = _slow_solve
                    if cfg['backend'] == 'plain':
                        mp.tqdm = None
                    try:
                        a = _safe(lambda: self._apply(sim, op, cfg))
                    finally:
                        mp.solve, mp.tqdm = real_solve, real_tqdm
                    b = _safe(lambda: apply_ref(self, ref, op, cfg))
                    if a[0] != b[0] or (a[0] == 'ok' and (
                            (a[1] is None) != (b[1] is None) or (
                                a[1] is not None and
                                ahash(a[1]) != ahash(b[1])))):
                        return f"{op['op']}: outcome differs on the real pool"
                    x, y = self._snapshot(sim), self._snapshot(ref)
                    for k in sorted(set(x) | set(y)):
                        if not k.startswith('_') and x.get(k) != y.get(k):
                            return (f"{op['op']}: {k} differs between the "
                                    f"real pool and the sequential reference")
            return ''
        finally:
            mp.solve, mp.tqdm = real_solve, real_tqdm
            shutil.rmtree(scratch, ignore_errors=True)


def _slow_solve(inp):
    """`_multiprocessing.solve` with an adversarial delay: later tasks are
    shorter, so that they tend to finish first on the real pool."""
    import time
    import emg3d._multiprocessing as mp
    _slow_solve.n = getattr(_slow_solve, 'n', 0) + 1
    key = inp if isinstance(inp, str) else str(inp.get('frequency', ''))
    time.sleep(0.002 * (sum(map(ord, key[-12:])) % 23))
    return _REAL_SOLVE(inp)


def _safe(f):
    try:
        return ('ok', f())
    except Exception as e:      # noqa
        return ('exc', type(e).__name__)


class _Sink:
    def write(self, s):
        return len(s)

    def flush(self):
        pass


def _old_new_nan(post, pre, new):
    """Every entry is NaN, the old value or the new value (bit-wise)."""
    p = post.view(np.float64)
    ok = np.isnan(p)
    for x in (pre, new):
        if x is not None and x.shape == post.shape:
            ok |= (p == x.view(np.float64))
    return bool(ok.all())


def apply_ref(machine, ref, op, cfg):
    import emg3d._multiprocessing as mp
    saved = mp.tqdm
    mp.tqdm = None
    try:
        return machine._apply(ref, op, cfg)
    finally:
        mp.tqdm = saved


def rerr_after_clean(machine, ref, op, cfg):
    try:
        apply_ref(machine, ref, op, cfg)
    except Exception as e:      # noqa
        return e
    return None


def _diff(a, b):
    if a is None or b is None:
        return f'{type(a).__name__} vs {type(b).__name__}'
    a, b = np.asarray(a), np.asarray(b)
    if a.shape != b.shape or a.dtype != b.dtype:
        return f'{a.dtype}{a.shape} vs {b.dtype}{b.shape}'
    with np.errstate(all='ignore'):
        d = np.nanmax(np.abs(a - b)) if a.size else 0
        n = np.nanmax(np.abs(b)) if b.size else 0
    return f'max|diff|={d:.3e} (max|ref|={n:.3e})'
