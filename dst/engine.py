"""Simulator core: seeds, choice tape, trace, violations, context.

One integer decides everything: ``VERIF_SEED`` -> per-run seed -> (a) a
``random.Random`` used *only* by the case generator, whose output is a plain
JSON case ``{config, ops}``, and (b) a :class:`Chooser` used during execution
for every scheduler / fault / duration decision.  The chooser is *stateless*:
the value of a choice is ``H(seed, key)`` where ``key`` names the decision
("op2/pool0/dur/3").  Removing an operation while shrinking therefore leaves
all other decisions unchanged.  Every decision taken is logged on the tape
(key -> value); a replay reads the tape and never hashes.
"""
import hashlib
import json
import os
import random

import numpy as np

DEFAULT_SEED = 20260923
ENGINE_VERSION = 1


def sha(*parts):
    h = hashlib.sha256()
    for p in parts:
        h.update(str(p).encode())
        h.update(b'|')
    return h.hexdigest()


def run_seed(seed, pid, tier_stream, index):
    """Per-run seed; `tier_stream` keeps quick/thorough streams distinct."""
    return int(sha(seed, pid, tier_stream, index)[:15], 16)


class Chooser:
    """Stateless, key-addressed choices with a recorded tape."""

    def __init__(self, seed, tape=None, strict=False):
        self.seed = seed
        self.tape = dict(tape or {})
        self.log = {}
        self.strict = strict   # replay of a minimised file: no hashing

    def _raw(self, key):
        return int(sha(self.seed, key)[:13], 16)

    def randint(self, key, n):
        """Integer in [0, n)."""
        if n <= 1:
            v = 0
        elif key in self.tape:
            v = int(self.tape[key])
            if not 0 <= v < n:
                v = 0
        elif self.strict:
            v = 0
        else:
            v = self._raw(key) % n
        self.log[key] = v
        return v

    def choice(self, key, seq):
        return seq[self.randint(key, len(seq))]

    def uniform(self, key, lo=0.0, hi=1.0, steps=1000):
        """Float on a grid of `steps` values (so that the tape stays small)."""
        return lo + (hi - lo) * self.randint(key, steps) / steps

    def chance(self, key, p):
        return self.randint(key, 1000) < int(p * 1000)


class Violation(Exception):
    """A property violation found by an oracle (not a harness problem)."""

    def __init__(self, cls, detail, quantity=None, op=None):
        super().__init__(f"{cls}: {detail}")
        self.cls = cls            # violation class (Appendix A of DESIGN.md)
        self.detail = detail
        self.quantity = quantity  # what differed (e.g. 'gradient')
        self.op = op              # op kind at which it was observed

    def signature(self, pid):
        return f"{pid}/{self.cls}/{self.quantity}/{self.op}"

    def to_dict(self, pid):
        return {'class': self.cls, 'detail': self.detail,
                'quantity': self.quantity, 'op': self.op,
                'signature': self.signature(pid)}


class HarnessError(Exception):
    """The harness itself failed (seam missed, nondeterminism, ...)."""


def canon(x):
    """Canonical JSON-able form of an observation (arrays -> digests)."""
    if x is None or isinstance(x, (bool, str)):
        return x
    if isinstance(x, (int, np.integer)):
        return int(x)
    if isinstance(x, (float, np.floating)):
        return repr(float(x))
    if isinstance(x, (complex, np.complexfloating)):
        return repr(complex(x))
    if isinstance(x, np.ndarray):
        a = np.ascontiguousarray(x)
        return ['nd', str(a.dtype), list(a.shape),
                hashlib.sha256(a.tobytes()).hexdigest()[:16]]
    if isinstance(x, dict):
        return {str(k): canon(v) for k, v in sorted(x.items(),
                                                    key=lambda kv: str(kv[0]))}
    if isinstance(x, (list, tuple)):
        return [canon(v) for v in x]
    if hasattr(x, 'values') and hasattr(x, 'dims'):   # xarray
        return canon(np.asarray(x.values))
    return ['obj', type(x).__name__]


def ahash(a):
    """Hash of an array's bytes (dtype and shape included)."""
    a = np.ascontiguousarray(np.asarray(a))
    return sha(a.dtype, a.shape, hashlib.sha256(a.tobytes()).hexdigest())[:20]


class Trace:
    def __init__(self):
        self.events = []
        self.seq = 0

    def add(self, clock, kind, obs=None):
        self.seq += 1
        self.events.append([self.seq, repr(round(clock, 6)), kind, canon(obs)])

    def digest(self):
        return hashlib.sha256(
            json.dumps(self.events, sort_keys=True).encode()).hexdigest()[:24]


class Stats:
    """Counters of what actually happened in a run."""

    def __init__(self):
        self.faults = {}    # fault kind -> times fired
        self.probes = {}    # rare-branch probe -> hits
        self.seams = {}     # seam -> hits
        self.features = set()   # reach measure

    def fault(self, k):
        self.faults[k] = self.faults.get(k, 0) + 1

    def probe(self, k, n=1):
        self.probes[k] = self.probes.get(k, 0) + n

    def seam(self, k, n=1):
        self.seams[k] = self.seams.get(k, 0) + n

    def feature(self, *k):
        self.features.add('/'.join(str(i) for i in k))


class Ctx:
    """Everything one simulated run owns."""

    def __init__(self, pid, seed, tape=None, strict=False, scratch=None):
        from dst.clock import VirtualClock
        self.pid = pid
        self.seed = seed
        self.ch = Chooser(seed, tape, strict)
        self.clock = VirtualClock()
        self.trace = Trace()
        self.stats = Stats()
        self.scratch = scratch
        self.opi = 0           # index of the op being executed (for keys)
        self.steps = 0

    def key(self, *parts):
        return f"op{self.opi}/" + '/'.join(str(p) for p in parts)

    def event(self, kind, obs=None):
        self.steps += 1
        self.trace.add(self.clock.now, kind, obs)

    def norm(self, s):
        """Remove the scratch path from strings entering the trace."""
        if self.scratch and isinstance(s, str):
            return s.replace(self.scratch, '<scratch>')
        return s


def gen_rng(seed):
    return random.Random(seed)


def scratch_root():
    return os.environ.get('VERIF_SCRATCH', '/tmp')
