#!/bin/bash
# Runs every claimed check of MANIFEST.json (quick by default) one after the
# other; prints a summary line per property.
TIER="${1:-quick}"
cd "$(dirname "$0")"; mkdir -p out evidence
rc_all=0
for id in $(/venv/bin/python -c "import json;print(' '.join(c['property_id'] for c in json.load(open('MANIFEST.json'))['checks']))"); do
  t0=$(date +%s)
  ./check "$id" --tier "$TIER" > "out/$id.$TIER.log" 2>&1
  rc=$?
  echo "$id rc=$rc wall=$(( $(date +%s) - t0 ))s $(grep -c '^VIOLATION' out/$id.$TIER.log) violation(s) $(grep -c '^KNOWN-FINDING' out/$id.$TIER.log) known"
  [ $rc -ne 0 ] && rc_all=1
done
exit $rc_all
