#!/bin/bash
# Offline setup: nothing to build; warm the numba cache (outside /repo).
cd "$(dirname "$0")"
mkdir -p .cache/numba out evidence
export NUMBA_CACHE_DIR="$PWD/.cache/numba" OMP_NUM_THREADS=1 PYTHONPATH="$PWD"
/venv/bin/python -c "
from dst.machine import Machine
Machine().warmup()
print('warm')
" || exit 1
